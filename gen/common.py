"""Shared machinery: builds, engines, diff, verdict, evidence.  See DESIGN.md §3-§4."""
import fcntl, json, os, re, subprocess, sys, time, hashlib, random, shutil

VERIF = os.path.dirname(os.path.dirname(os.path.abspath(__file__)))
# seeded-change runs (tools/run_seed.py --scratch) point VERIF_REPO / VERIF_HARNESS / VERIF_LEAN / VERIF_OUT at private copies, so that
# nothing under /repo or /verif (generated Lean kernels, evidence, replays, build output) is touched by them
LEAN = os.environ.get("VERIF_LEAN", os.path.join(VERIF, "lean"))
HARNESS = os.environ.get("VERIF_HARNESS", os.path.join(VERIF, "harness"))
OUT = os.environ.get("VERIF_OUT", VERIF)
WORK = os.path.join(OUT, "work")
REPO = os.environ.get("VERIF_REPO", "/repo")   # seeded-change runs point this (and VERIF_HARNESS) at a scratch worktree
NPROC = min(16, os.cpu_count() or 4)
ALLOWED_AXIOMS = {"propext", "Classical.choice", "Quot.sound"}
FORBIDDEN = re.compile(r"\bsorry\b|\badmit\b|^axiom\s|native_decide|bv_decide|implemented_by|\bunsafe\s|maxHeartbeats\s+0\b")
ENV = dict(os.environ, CARGO_NET_OFFLINE="true")

os.makedirs(WORK, exist_ok=True)


class Lock:
    def __init__(self, name):
        self.path = os.path.join(WORK, name + ".lock")
    def __enter__(self):
        self.f = open(self.path, "w")
        fcntl.flock(self.f, fcntl.LOCK_EX)
    def __exit__(self, *a):
        fcntl.flock(self.f, fcntl.LOCK_UN)
        self.f.close()


def sh(cmd, cwd=None, timeout=None, env=None):
    p = subprocess.run(cmd, cwd=cwd, stdout=subprocess.PIPE, stderr=subprocess.STDOUT, text=True,
                       timeout=timeout, env=env or ENV, shell=isinstance(cmd, str))
    return p.returncode, p.stdout


# --------------------------------------------------------------------------- Lean side

def strip_comments(src):
    src = re.sub(r"/-.*?-/", "", src, flags=re.S)
    return "\n".join(l.split("--")[0] for l in src.splitlines())


# which machine-translated kernels a property's theorem file depends on (Proofs/Gen*.lean prove them equal to the hand model)
GEN_KERNELS = {"C01": ["Utils", "Poly1305"], "C02": ["Utils", "Poly1305"], "C11": ["Rand"], "C03": ["Stream"], "C04": ["Stream"], "C17": ["Stream"], "C07": ["Utils", "Poly1305", "Blake2b", "SipHash", "Core"], "C09": ["Utils", "Argon2", "Pwhash"], "C10": ["Pwhash"], "C12": ["Utils", "Blake2b", "Curve"], "C18": ["Utils", "Blake2b", "SimdText"], "C05": ["Curve", "Kx"], "C13": ["Curve"],
               "C14": ["Protected"], "C15": ["Protected"]}


def regen_kernels():
    """run tools/rs2lean.py over /repo; returns ({kernel: 'unchanged'|'CHANGED'}, {kernel: error})"""
    tool = os.path.join(VERIF, "tools", "rs2lean.py")
    if not os.path.exists(tool):
        return {}, {}
    p = subprocess.run(["python3", tool, "--all", REPO, os.path.join(LEAN, "DryocVerif", "Gen")], stdout=subprocess.PIPE, stderr=subprocess.PIPE, text=True)
    status, err = {}, {}
    for l in p.stdout.splitlines():
        if ": " in l:
            k, v = l.split(": ", 1)
            status[k] = v
    for l in p.stderr.splitlines():
        m = re.match(r"rs2lean: (\w+): (.*)", l)
        if m:
            err[m.group(1)] = m.group(2)[:300]
            status[m.group(1)] = "REJECTED"
    if p.returncode != 0 and not err:
        err["translator"] = (p.stderr or p.stdout)[-300:]
    return status, err


def lean_obligations(prop):
    """Build the property module + driver, audit axioms.  Returns dict."""
    res = {"theorems": [], "failed": [], "build_ok": False, "log": "", "forbidden": []}
    pfile = os.path.join(LEAN, "DryocVerif", "Properties", prop + ".lean")
    src = strip_comments(open(pfile).read())
    names = re.findall(r"^\s*theorem\s+([A-Za-z0-9_'.]+)", src, flags=re.M)
    ns = re.search(r"^namespace\s+(\S+)", src, flags=re.M)
    prefix = (ns.group(1) + ".") if ns else ""
    res["theorems"] = names
    # forbidden constructs anywhere in the library
    for root, _, files in os.walk(os.path.join(LEAN, "DryocVerif")):
        for fn in files:
            if fn.endswith(".lean"):
                body = strip_comments(open(os.path.join(root, fn)).read())
                for i, l in enumerate(body.splitlines()):
                    if FORBIDDEN.search(l):
                        res["forbidden"].append("%s:%d:%s" % (fn, i + 1, l.strip()[:80]))
    with Lock("lake"):
        # the generated kernels (DryocVerif/Gen/*.lean) are re-translated from /repo's current source on every run
        gen_status, gen_err = regen_kernels()
        res["generated"] = gen_status
        for k in GEN_KERNELS.get(prop, []):
            if k in gen_err:
                res["failed"].append("translator (tools/rs2lean.py) rejected the current source of kernel %s: %s" % (k, gen_err[k]))
        # the model driver first (it imports only Model/Spec files): its answers stay available when a proof no longer checks
        rc_d, out_d = sh(["lake", "build", "dryoc_model"], cwd=LEAN, timeout=3000)
        res["build_ok"] = rc_d == 0
        if rc_d != 0:
            res["log"] = out_d[-4000:]
            res["failed"] += sorted(set(re.findall(r"error: ([^\n]*)", out_d)))[:20] or ["lake build dryoc_model failed"]
            return res
        rc, out = sh(["lake", "build", "DryocVerif.Properties." + prop], cwd=LEAN, timeout=3000)
        res["log"] = out[-4000:]
        if rc != 0:
            # which theorem(s) broke: look for error lines
            res["failed"] += sorted(set(re.findall(r"error: ([^\n]*)", out)))[:20] or ["lake build failed"]
            return res
        audit = os.path.join(WORK, "Audit_%s.lean" % prop)
        with open(audit, "w") as f:
            f.write("import DryocVerif.Properties.%s\n" % prop)
            for n in names:
                f.write("#print axioms %s%s\n" % (prefix, n))
        rc, out = sh(["lake", "env", "lean", audit], cwd=LEAN, timeout=1200)
    res["audit"] = {}
    cur = None
    # output: "'name' depends on axioms: [a, b]" or "'name' does not depend on any axioms"
    flat = out.replace("\n", " ")
    for m in re.finditer(r"'(\S+)' (does not depend on any axioms|depends on axioms: \[([^\]]*)\])", flat):
        axs = [a.strip() for a in (m.group(3) or "").split(",") if a.strip()]
        res["audit"][m.group(1)] = axs
    for n in names:
        full = prefix + n
        if full not in res["audit"]:
            res["failed"].append("audit: no axiom report for " + full)
        else:
            bad = [a for a in res["audit"][full] if a not in ALLOWED_AXIOMS]
            if bad:
                res["failed"].append("audit: %s uses %s" % (full, bad))
    if res["forbidden"]:
        res["failed"].append("forbidden construct: " + "; ".join(res["forbidden"][:5]))
    if rc != 0 and not res["audit"]:
        res["failed"].append("audit run failed: " + out[-500:])
    return res


def leanchecker(prop):
    with Lock("lake"):
        rc, out = sh(["lake", "env", "leanchecker", "DryocVerif.Properties." + prop], cwd=LEAN, timeout=3000)
    return rc == 0, out[-2000:]


# --------------------------------------------------------------------------- Rust side

RUNNER_CFG = {
    "stable": {"toolchain": None, "features": ["hooks"]},
    "nightly": {"toolchain": "+nightly", "features": ["hooks", "nightly"]},
    "simd": {"toolchain": "+nightly", "features": ["hooks", "nightly", "simd"]},
    # the shipping profile (optimised, no overflow checks, no debug assertions): every stable-runner transcript is repeated on it
    "release": {"toolchain": None, "features": ["hooks"], "release": True},
    # optimised nightly build WITHOUT the hooks feature (the release observer's read would keep stores alive that the optimiser
    # may otherwise delete): used by C15 with the free()-scan shim
    "nightly-release": {"toolchain": "+nightly", "features": ["nightly"], "release": True},
}
# answers of the dev-profile and the release-profile runner that differ (filled by run_engine, turned into violations by conclude)
RELEASE_DIFFS = []
# requests whose answer legitimately differs between two runs (they use the OS generator without the entropy hook)
PROFILE_DEPENDENT_OPS = {"rand", "box_seal_rt"}
RELEASE_PASS = os.environ.get("VERIF_RELEASE", "1") != "0"


def build_runner(cfg="stable"):
    c = RUNNER_CFG[cfg]
    tdir = os.path.join(HARNESS, "target-" + cfg)
    cmd = ["cargo"] + ([c["toolchain"]] if c["toolchain"] else []) + ["build", "--offline", "--target-dir", tdir]
    env = None
    cov = os.environ.get("VERIF_COVERAGE")
    if cov:
        # audit mode (tools/coverage.sh): an instrumented runner in a scratch target dir, profiles written next to it
        tdir = os.path.join(cov, "target-" + cfg)
        cmd = ["cargo", "+nightly", "build", "--offline", "--target-dir", tdir]
        env = dict(ENV, RUSTFLAGS="-C instrument-coverage")
        ENV["LLVM_PROFILE_FILE"] = os.path.join(cov, "prof", cfg + "-%p-%m.profraw")
    if c["features"]:
        cmd += ["--features", ",".join(c["features"])]
    if c.get("release") and not cov:
        cmd += ["--release"]
    with Lock("cargo-" + cfg):
        # Cargo.lock is a copy of /repo's; refresh if /repo's changed
        rc, out = sh(cmd, cwd=HARNESS, timeout=3000, env=env)
    if rc != 0:
        e = BuildError("runner build (%s) failed:\n%s" % (cfg, out[-3000:]))
        # the crate itself compiled and only the runner (a client of its public API) did not: something the API offered is gone or
        # changed its type — the correspondence cannot be run, which is reported as such (check.py), not as "nothing checked"
        e.harness_only = ("could not compile `dryoc_verif_harness`" in out) and ("could not compile `dryoc`" not in out)
        e.errors = re.findall(r"^error(?:\[E\d+\])?: [^\n]*(?:\n\s+--> [^\n]*)?", out, re.M)[:8]
        raise e
    return os.path.join(tdir, "release" if (c.get("release") and not cov) else "debug", "runner")


class BuildError(Exception):
    pass


def driver_path():
    return os.path.join(LEAN, ".lake", "build", "bin", "dryoc_model")


def _run_one(binary, args, env, lines, timeout, stall):
    """one runner process over `lines`; returns (stdout, rc).  Answers are flushed per request, so progress is visible: a process
    that gives no new answer for `stall` seconds is killed and reported with rc 'hang' (non-termination in the implementation)."""
    import threading, time
    p = subprocess.Popen([binary] + list(args), stdin=subprocess.PIPE, stdout=subprocess.PIPE, stderr=subprocess.DEVNULL, text=True, env=env or ENV)
    buf, last = [], [time.time()]
    def feed():
        try:
            p.stdin.write("\n".join(lines) + "\n")
            p.stdin.close()
        except (BrokenPipeError, OSError, ValueError):
            pass
    def read():
        for l in p.stdout:
            buf.append(l)
            last[0] = time.time()
    tf, tr = threading.Thread(target=feed, daemon=True), threading.Thread(target=read, daemon=True)
    tf.start(); tr.start()
    t0, rc = time.time(), None
    while True:
        tr.join(0.2)
        if not tr.is_alive():
            break
        now = time.time()
        if now - last[0] > stall or now - t0 > timeout:
            rc = "hang" if now - last[0] > stall else "timeout"
            p.kill()
            tr.join(5)
            break
    p.wait()
    return "".join(buf), (rc if rc is not None else p.returncode)


def run_engine(binary, lines, env=None, nproc=NPROC, timeout=3000, args=(), stall=None, _inner=False):
    """Feed request lines to `binary` split over nproc processes; return {id: [cols...]}."""
    if not lines:
        return {}
    if RELEASE_PASS and not _inner and binary == os.path.join(HARNESS, "target-stable", "debug", "runner"):
        # the same requests on the release-profile build: the implementation's answers must not depend on the profile
        dev = run_engine(binary, lines, env=env, nproc=nproc, timeout=timeout, args=args, stall=stall, _inner=True)
        rel = run_engine(build_runner("release"), lines, env=env, nproc=nproc, timeout=timeout, args=args, stall=stall, _inner=True)
        byid = {l.split(" ", 1)[0]: l.split(" ", 1)[1] if " " in l else "" for l in lines}
        for k, d in dev.items():
            r = rel.get(k, ["missing"])
            if d[0] != r[0] and byid.get(k, "").split(" ")[0] not in PROFILE_DEPENDENT_OPS:
                RELEASE_DIFFS.append({"line": byid.get(k, ""), "dev": d[0][:3000], "release": r[0][:3000]})
        return dev
    if stall is None:
        stall = float(os.environ.get("VERIF_STALL", "240"))
    n = max(1, min(nproc, len(lines) // 8 or 1))
    chunks = [lines[i::n] for i in range(n)]
    import threading
    outs = [None] * len(chunks)
    def work(i, ch):
        outs[i] = _run_one(binary, args, env, ch, timeout, stall)
    ths = [threading.Thread(target=work, args=(i, ch)) for i, ch in enumerate(chunks)]
    [t.start() for t in ths]
    [t.join() for t in ths]
    res = {}
    for (o, rc), ch in zip(outs, chunks):
        pending = ch
        rounds = 0
        while True:
            seen = set()
            for l in o.splitlines():
                cols = l.split("\t")
                if len(cols) >= 2:
                    res[cols[0]] = cols[1:]
                    seen.add(cols[0])
            rest = [l for l in pending if l.split(" ", 1)[0] not in seen]
            if not rest:
                break
            # the process died (abort, SIGSEGV, allocation failure) or stopped answering: answers are flushed per request, so the
            # first unanswered request is the one that killed / hung it; the remaining ones are re-run in a fresh process
            culprit = rest[0].split(" ", 1)[0]
            res[culprit] = ["abort(rc=%s)" % rc, "n/a"]
            pending = rest[1:]
            rounds += 1
            if not pending or rounds > 200:
                for l in pending:
                    res[l.split(" ", 1)[0]] = ["abort(rc=%s)" % rc, "n/a"]
                break
            o, rc = _run_one(binary, args, env, pending, timeout, stall)
    return res


# --------------------------------------------------------------------------- cases

class Case:
    __slots__ = ("id", "line", "cls", "expect", "meta")
    def __init__(self, line, cls="", expect=None, meta=None):
        self.id = None
        self.line = line      # "<op> args…" without id
        self.cls = cls        # class label for the distribution
        self.expect = expect  # property-level expectation on impl answer (callable or str) or None
        self.meta = meta or {}


def hx(b):
    return b.hex() if len(b) else "-"


def rbytes(rng, n):
    return bytes(rng.getrandbits(8) for _ in range(n)) if n else b""


# --------------------------------------------------------------------------- verdict

class Result:
    def __init__(self, prop, tier, seed):
        self.prop, self.tier, self.seed = prop, tier, seed
        self.t0 = time.time()
        self.violations = []      # (kind, case line, details)
        self.corr_breaks = []     # impl != model
        self.model_spec_breaks = []
        self.known = []
        self.evaluations = 0
        self.distinct = set()
        self.dist = {}
        self.samples = []
        self.notes = []
        self.extra = {}

    def count(self, cls):
        self.dist[cls] = self.dist.get(cls, 0) + 1


def load_known():
    p = os.path.join(VERIF, "known_findings.json")
    if not os.path.exists(p):
        return []
    return json.load(open(p)).get("findings", [])


def match_known(prop, line, kind):
    for k in load_known():
        if k.get("property") != prop or k.get("status") != "open":
            continue
        if re.search(k["match"], line) and (not k.get("kind") or k["kind"] == kind):
            return k
    return None


def write_replay(prop, payload):
    os.makedirs(os.path.join(OUT, "replay"), exist_ok=True)
    n = 0
    while os.path.exists(os.path.join(OUT, "replay", "%s-%d.json" % (prop, n))):
        n += 1
    path = os.path.join(OUT, "replay", "%s-%d.json" % (prop, n))
    payload["replay_cmd"] = "python3 /verif/check.py %s --replay %s" % (prop, path)
    json.dump(payload, open(path, "w"), indent=1)
    return path


def write_evidence(res, lean, level="proof", assumptions=None, trusted=None, rule=""):
    names = lean["theorems"]
    failed = lean["failed"]
    discharged = len(names) if (lean["build_ok"] and not failed) else max(0, len(names) - max(1, len(failed)))
    ev = {
        "property_id": res.prop, "tier": res.tier, "seed": res.seed, "level": level,
        "coverage": {
            "obligations": len(names), "discharged": discharged,
            "checker_cmd": "cd /verif/lean && lake build DryocVerif.Properties.%s && lake env lean work/Audit_%s.lean  (#print axioms ⊆ {propext, Classical.choice, Quot.sound}); thorough tier adds `lake env leanchecker DryocVerif.Properties.%s`" % (res.prop, res.prop, res.prop),
            "trusted_base": trusted or [],
            "theorems": names,
            "axioms": lean.get("audit", {}),
            "evaluations": res.evaluations,
            "distinct_nontrivial": len(res.distinct),
            "rule": rule,
            "samples": res.samples[:12],
            "distribution": dict(sorted(res.dist.items())),
            "correspondence_disagreements": len(res.corr_breaks),
            "oracle_failures": len(res.violations),
            "exhaustive": False,
        },
        "assumptions": assumptions or [],
        "wall_s": round(time.time() - res.t0, 2),
        "violations": len(res.violations) + (1 if failed else 0) + (1 if res.corr_breaks and not res.violations else 0),
    }
    if lean.get("generated") and GEN_KERNELS.get(res.prop):
        ev["coverage"]["translated_kernels"] = {k: lean["generated"].get(k, "?") for k in GEN_KERNELS[res.prop]}
        ev["coverage"]["translator_cmd"] = "python3 /verif/tools/rs2lean.py --all /repo /verif/lean/DryocVerif/Gen  (run inside every check before lake build)"
    ev["coverage"].update(res.extra)
    os.makedirs(os.path.join(OUT, "evidence"), exist_ok=True)
    json.dump(ev, open(os.path.join(OUT, "evidence", res.prop + ".json"), "w"), indent=1)
    return ev


def conclude(res, lean, **evkw):
    """Print VIOLATION / KNOWN-FINDING lines, write evidence, return exit code."""
    rc = 0
    reported = 0
    unknown = []
    for d in RELEASE_DIFFS:
        res.violations.append({"kind": "impl(release)!=impl(dev)", "line": d["line"], "answers": {"impl(dev profile)": d["dev"], "impl(release profile)": d["release"]},
                               "why": "the implementation's answer depends on the build profile (optimised build without overflow checks / debug assertions vs the dev profile)"})
    if RELEASE_PASS:
        res.extra["release_profile_pass"] = "every stable-runner request repeated on the --release build; %d differing answers" % len(RELEASE_DIFFS)
    del RELEASE_DIFFS[:]
    for v in res.violations:
        k = match_known(res.prop, v["line"], v["kind"])
        if k:
            if k["id"] not in [x["id"] for x in res.known]:
                res.known.append(k)
        else:
            unknown.append(v)
    for k in res.known:
        print("KNOWN-FINDING: property=%s %s" % (res.prop, k["what"]))
    if unknown:
        # group by (kind, op) and report the smallest line of each group, at most 5 replays
        groups = {}
        for v in unknown:
            key = (v["kind"], v["line"].split(" ")[0])
            if key not in groups or len(v["line"]) < len(groups[key]["line"]):
                groups[key] = v
        for key, v in list(groups.items())[:5]:
            path = write_replay(res.prop, {"property": res.prop, "kind": v["kind"], "requests": [v["line"]], "answers": v["answers"],
                                          "explanation": v.get("why", ""), "group_size": sum(1 for u in unknown if (u["kind"], u["line"].split(" ")[0]) == key)})
            print("VIOLATION property=%s replay=%s" % (res.prop, path))
            rc = 1
    elif lean["failed"] or res.corr_breaks or res.model_spec_breaks:
        what = {"property": res.prop, "kind": "no-failing-input-found",
                "broken_theorems": lean["failed"],
                "correspondence_breaks": [{"request": c["line"], "answers": c["answers"]} for c in res.corr_breaks[:10]],
                "model_spec_breaks": [{"request": c["line"], "answers": c["answers"]} for c in res.model_spec_breaks[:10]],
                "lean_log": lean["log"][-1500:] if lean["failed"] else "",
                "explanation": "a proof obligation or the model/implementation correspondence no longer checks; the search over %d cases found no input on which the property itself fails" % res.evaluations}
        # correspondence breaks listed as known?
        kn = [c for c in res.corr_breaks if match_known(res.prop, c["line"], "correspondence")]
        if lean["failed"] or res.model_spec_breaks or len(kn) < len(res.corr_breaks):
            path = write_replay(res.prop, what)
            print("VIOLATION property=%s replay=%s no-failing-input-found" % (res.prop, path))
            rc = 1
    ev = write_evidence(res, lean, **evkw)
    print("%s %s: %d cases, %d distinct non-trivial, %d theorems (%s), %d oracle failures, %d correspondence breaks, %.1fs" % (
        res.prop, res.tier, res.evaluations, len(res.distinct), len(lean["theorems"]),
        "all checked" if lean["build_ok"] and not lean["failed"] else "FAILED", len(res.violations), len(res.corr_breaks), time.time() - res.t0))
    return rc


def concurrent_pass(res, cfg, lines, cases, impl, ops=None, threads=8, repeat=8, max_lines=4000):
    """The same requests once more with `threads` threads of ONE runner process answering them at the same time, each request
    executed `repeat` times in a row on its thread: every answer must be the single-threaded answer (statics, thread-locals shared
    by mistake, locks released too early).  Requests whose answer is random or that need gigabytes are left out."""
    skip = set(PROFILE_DEPENDENT_OPS) | {"randh", "stream_huge", "poly1305_huge", "pwhash_big", "pwhash_hash_preset", "pwhash_keypair_preset", "pwhash_str", "pwhash_defaults", "so_pwhash_str", "pwhash_rehash_parsed", "prot", "lockedctor"}
    sel = [(c, l) for c, l in zip(cases, lines) if c.line.split(" ")[0] not in skip and (ops is None or c.line.split(" ")[0] in ops)
           and impl.get(c.id, ["n/a"])[0] not in ("n/a", "missing") and not impl.get(c.id, [""])[0].startswith(("abort", "panic"))]
    if len(sel) > max_lines:
        sel = sel[:: len(sel) // max_lines + 1]
    if not sel:
        return
    env = dict(ENV, RUNNER_THREADS=str(threads), RUNNER_REPEAT=str(repeat))
    mt = run_engine(build_runner(cfg), [l for _, l in sel], env=env, nproc=2, _inner=True)
    nd = 0
    for c, _ in sel:
        a, b = impl.get(c.id, ["missing"])[0], mt.get(c.id, ["missing"])[0]
        res.evaluations += 1
        res.count("concurrent/" + c.line.split(" ")[0])
        if a != b:
            nd += 1
            if nd <= 10:
                res.violations.append({"kind": "impl(concurrent)!=impl(sequential)", "line": c.line, "answers": {"impl(one thread)": a[:1500], "impl(%d threads at once)" % threads: b[:1500]},
                                       "why": "the answer changes when other threads use the library at the same time (%d threads, each request %d times in a row)" % (threads, repeat)})
    res.extra["concurrent_pass"] = "%d requests answered again by %d threads at once, %d times each; %d differing" % (len(sel), threads, repeat, nd)


def standard_compare(res, cases, impl, model, check_sodium=True, check_spec=True, check_model=True):
    """Generic 4-column comparison.  impl: {id:[impl, sodium, alloc]}, model: {id:[model, spec]}."""
    for c in cases:
        res.evaluations += 1
        res.count(c.cls)
        ia = impl.get(c.id, ["missing", "n/a"])
        ma = model.get(c.id, ["missing", "n/a"])
        i, s = ia[0], (ia[1] if len(ia) > 1 else "n/a")
        m, sp = ma[0], (ma[1] if len(ma) > 1 else "n/a")
        if m == "bad-op":
            m, sp = "n/a", "n/a"
            res.extra["model_unsupported"] = res.extra.get("model_unsupported", 0) + 1
        answers = {"impl": i, "sodium": s, "model": m, "spec": sp}
        if i == "n/a":      # this build of the runner does not offer the operation (e.g. heap containers on stable)
            res.extra["impl_unsupported"] = res.extra.get("impl_unsupported", 0) + 1
            continue
        if i not in ("n/a",) :
            res.distinct.add(hashlib.sha1((c.line.split(" ")[0] + "|" + i).encode()).hexdigest())
        if len(res.samples) < 12 and res.evaluations % max(1, len(cases) // 12) == 0:
            res.samples.append({"request": c.line[:300], "answers": {k: v[:120] for k, v in answers.items()}})
        bad = False
        if i == "panic" or i.startswith("abort") or i.startswith("mismatch") or i == "missing":
            # panics are judged by the property module (some ops legitimately model panic); default: violation
            if not (check_model and m == "panic" and c.meta.get("panic_ok")):
                res.violations.append({"kind": "impl-" + i.split(" ")[0].split("(")[0], "line": c.line, "answers": answers, "why": "implementation panicked/aborted/internally inconsistent"})
                bad = True
        ib = i.split(" buf=")[0]   # spec / libsodium answers never carry the caller buffer
        if check_spec and not c.meta.get("no_spec") and sp not in ("n/a", "bad-op") and ib != sp and not bad:
            res.violations.append({"kind": "impl!=spec", "line": c.line, "answers": answers, "why": "implementation differs from the Lean specification"})
            bad = True
        if check_sodium and not c.meta.get("no_sodium") and s not in ("n/a",) and ib != s and not bad:
            res.violations.append({"kind": "impl!=sodium", "line": c.line, "answers": answers, "why": "implementation differs from libsodium"})
            bad = True
        if c.expect is not None and not bad:
            okp = c.expect(i) if callable(c.expect) else (i == c.expect or i.startswith(c.expect + " "))
            if not okp:
                res.violations.append({"kind": "predicate", "line": c.line, "answers": answers, "why": "property predicate false on the implementation: " + str(c.meta.get("why", c.cls))})
                bad = True
        if check_model and m not in ("n/a",) and i != m:
            res.corr_breaks.append({"line": c.line, "answers": answers})
        if sp not in ("n/a", "bad-op") and m not in ("n/a",) and m.split(" buf=")[0] != sp and not c.meta.get("no_spec"):
            res.model_spec_breaks.append({"line": c.line, "answers": answers})


def assign_ids(cases):
    for n, c in enumerate(cases):
        c.id = str(n)
    return [c.id + " " + c.line for c in cases]


def corpus_cases(prop):
    d = os.path.join(VERIF, "corpus", prop)
    out = []
    if os.path.isdir(d):
        for fn in sorted(os.listdir(d)):
            for l in open(os.path.join(d, fn)):
                l = l.strip()
                if l and not l.startswith("#"):
                    out.append(Case(l, cls="corpus"))
    return out
