"""Password-hash string generators shared by C10 and C04."""
import base64
from common import *


def b64(b):
    return base64.b64encode(b).decode().rstrip("=")


def mkstr(alg, t, m, salt, h, v=19, p=1):
    return "$%s$v=%d$m=%d,t=%d,p=%d$%s$%s" % (alg, v, m, t, p, b64(salt), b64(h))


def shex(s):
    return hx(s.encode())


def argon2_prefixed_salt(rng, n):
    """salt bytes whose base64 starts with 'argon2' (the E10 corner)"""
    raw = base64.b64decode("argon2" + "id"[: 2])  # 'argon2id' -> 6 bytes
    return (raw + rbytes(rng, max(0, n - len(raw))))[: max(n, 6)]


def valid_strings(rng, count):
    out = []
    for i in range(count):
        alg = "argon2i" if i % 2 else "argon2id"
        sl = 8 + i % 57
        hl = 16 + (i * 7) % 113
        salt = argon2_prefixed_salt(rng, sl) if i % 11 == 0 else rbytes(rng, sl)
        h = argon2_prefixed_salt(rng, hl) if i % 13 == 0 else rbytes(rng, hl)
        t = [1, 2, 3, 4, 10, 4294967295][i % 6]
        m = [8, 9, 64, 65536, 1048576, 4294967295][(i // 6) % 6]
        out.append((mkstr(alg, t, m, salt, h), alg, t, m, salt, h))
    # the shortest and the longest strings the format allows, both algorithms (all minimal / all maximal field lengths at once)
    for alg in ("argon2i", "argon2id"):
        for (sl, hl, m, t) in ((8, 16, 8, 1), (8, 16, 9, 9), (8, 17, 8, 1), (9, 16, 8, 1), (8, 16, 10, 1), (8, 16, 8, 10), (64, 128, 4294967295, 4294967295)):
            salt, h = rbytes(rng, sl), rbytes(rng, hl)
            out.append((mkstr(alg, t, m, salt, h), alg, t, m, salt, h))
    return out


def malformed(rng, count):
    """grammar-based mutations of valid strings + random garbage; cost parameters stay small so verify cannot allocate much"""
    out = []
    base = valid_strings(rng, 12)
    muts = 0
    while len(out) < count:
        s, alg, t, m, salt, h = base[len(out) % len(base)]
        m = min(m, 64); t = min(t, 2)
        s = mkstr(alg, t, m, salt, h)
        parts = s.split("$")
        k = rng.randrange(20)
        if k == 0:
            del parts[rng.randrange(1, len(parts))]
        elif k == 1:
            i = rng.randrange(1, len(parts)); parts.insert(i, parts[i])
        elif k == 2:
            i, j = rng.randrange(1, len(parts)), rng.randrange(1, len(parts)); parts[i], parts[j] = parts[j], parts[i]
        elif k == 3:
            parts[3] = "m=%s,t=%d,p=1" % (rng.choice(["-1", "99999999999999999999", "", "+8", "0x10", "８", " 8", "4294967296"]), t)
        elif k == 4:
            parts[3] = "m=%d,t=%s,p=1" % (m, rng.choice(["-1", "99999999999", "", "+1", "0", "1e3"]))
        elif k == 5:
            parts[3] = "m=%d,t=%d,p=%s" % (m, t, rng.choice(["0", "2", "", "-1", "1,p=2", "16777216"]))
        elif k == 6:
            parts[2] = "v=%s" % rng.choice(["16", "18", "20", "", "19x", "-19", "+19", "4294967315"])
        elif k == 7:
            parts[4] = parts[4] + rng.choice(["=", "==", "!", " ", "\n", "A", "-", "_"])
        elif k == 8:
            parts[5] = rng.choice(["", "A", "AA", "AAA", "A===", "*", parts[5][:-1], parts[5] + "B"])
        elif k == 9:
            parts[1] = rng.choice(["argon2", "argon2d", "argon2ID", "argon2i ", "", "bcrypt", "argon2idd"])
        elif k == 10:
            s2 = "$" * rng.choice([0, 1, 2, 64, 4096])
            out.append(s2); continue
        elif k == 11:
            out.append("".join(chr(rng.randrange(32, 127)) for _ in range(rng.randrange(0, 120)))); continue
        elif k == 12:
            parts = parts[: rng.randrange(1, len(parts))]
        elif k == 13:
            parts[3] = parts[3].replace(",", rng.choice([";", ",,", ", ", ""]))
        elif k == 14:
            parts[4], parts[5] = "", parts[5]
        elif k == 15:
            parts[3] = "t=%d,m=%d,p=1,m=%d" % (t, m, rng.choice([8, 16]))
        else:
            # the parameter segment item by item: a key displaced from the start of its item (so that the segment still
            # *contains* "m=", "t=", "p=" but one value is never read), dropped, doubled, or reordered
            items = ["m=%d" % m, "t=%d" % t, "p=1"]
            i = rng.randrange(3)
            how = rng.randrange(7)
            if how == 0:
                items[i] = rng.choice(["x", " ", "k", "\t", "mm", "="]) + items[i]
            elif how == 1:
                moved = items.pop(i); items.append(rng.choice(["k", "x", " "]) + moved)
            elif how == 2:
                items.pop(i)
            elif how == 3:
                items[i] = items[i].upper()
            elif how == 4:
                items[i] = items[i].replace("=", rng.choice(["==", "", ":", "= "]))
            elif how == 5:
                rng.shuffle(items); items[rng.randrange(3)] = "x" + items[rng.randrange(3)]
            else:
                j = (i + 1) % 3
                items[i] = items[i] + items[j]; items.pop(j)
            parts[3] = ",".join(items)
        out.append("$".join(parts))
    return out


NONASCII = ["é", "🦀", "€", "\ufffd", "ß", "日", "\u0080", "\U0010ffff"]


def nonascii_strings(rng, count):
    """well-formed strings with a multi-byte character put at every kind of position: as an extra parameter item (`aé`, `k🦀`, `€`),
    inside / in front of / behind each item and each `$` field, and at random CHARACTER positions of the whole string"""
    out = []
    base = valid_strings(rng, 12)
    while len(out) < count:
        s, alg, t, m, salt, h = base[len(out) % len(base)]
        s = mkstr(alg, min(t, 2), min(m, 64), salt, h)
        parts = s.split("$")
        ch = rng.choice(NONASCII)
        k = rng.randrange(8)
        items = parts[3].split(",")
        if k == 0:
            items.insert(rng.randrange(len(items) + 1), rng.choice(["", "a", "k", "m", "ab", "m=", "x=1"]) + ch + rng.choice(["", "1", "=2"]))
        elif k == 1:
            i = rng.randrange(len(items)); pos = rng.randrange(len(items[i]) + 1)
            items[i] = items[i][:pos] + ch + items[i][pos:]
        elif k == 2:
            items.append(ch * rng.randrange(1, 4))
        elif k == 3:
            i = rng.randrange(1, len(parts)); pos = rng.randrange(len(parts[i]) + 1)
            parts[i] = parts[i][:pos] + ch + parts[i][pos:]
            out.append("$".join(parts)); continue
        elif k == 4:
            pos = rng.randrange(len(s) + 1)
            out.append(s[:pos] + ch + s[pos:]); continue
        elif k == 5:
            items = [it[:1] + ch + it[1:] if rng.random() < 0.5 else it for it in items]
        elif k == 6:
            items.insert(0, rng.choice(["a", "k", ""]) + ch)
        else:
            items = [rng.choice(["a", ""]) + ch] + items + [ch + "=1"]
        parts[3] = ",".join(items)
        out.append("$".join(parts))
    return out


def c04_cases(rng, tier):
    cs = []
    tot = lambda a: a.startswith("ok") or a.startswith("err")
    # well-formed strings whose memory cost gives a segment longer than one Argon2 address block and not a multiple of it (≈ 0.5–1 MiB)
    for alg in ("argon2id", "argon2i"):
        for m in (516, 600, 1000, 1028):
            st = mkstr(alg, 1 if alg == "argon2id" else 3, m, rbytes(rng, 16), rbytes(rng, 32))
            cs.append(Case("pwhash_str_verify %s %s" % (shex(st), hx(b"pw")), cls="pwhash_str_verify/segment-not-multiple-of-128", expect=tot, meta={"alloc_bound": 4 << 20, "why": "verify of a well-formed string with m=%d" % m}))
            cs.append(Case("pwhash_objverify_str %s %s" % (shex(st), hx(b"pw")), cls="pwhash_objverify_str/segment-not-multiple-of-128", expect=tot, meta={"no_sodium": True, "alloc_bound": 4 << 20}))
    # well-formed strings whose cost parameters are at the top of the encodable range (m up to 2³²−1 KiB, i.e. ≥ 4 GiB once multiplied
    # by 1024; t up to 2³²−1): parsed, re-encoded and compared for needs-rehash — never hashed
    for alg in ("argon2id", "argon2i"):
        for m in (4194303, 4194304, 4194305, 8388608, 1 << 31, (1 << 32) - 1):
            for t in (1, 3, (1 << 32) - 1):
                s = mkstr(alg, t, m, rbytes(rng, 16), rbytes(rng, 32))
                cs.append(Case("pwhash_parse %s" % shex(s), cls="pwhash_parse/large-costs", expect=tot, meta={"no_sodium": True, "why": "well-formed string with m=%d KiB, t=%d" % (m, t)}))
                cs.append(Case("pwhash_needs_rehash %s %d %d" % (shex(s), min(t, 4294967295), 1024 * m), cls="pwhash_needs_rehash/large-costs", expect=tot, meta={"no_sodium": True}))
    # stored hashes of EVERY length 0..=24 (and a few larger) in otherwise well-formed strings, opened through both routes: the classic
    # verifier and `PwHash::from_string(..).verify(..)`, which hashes into the stored hash's own length (small costs: m=8, t=1)
    for alg in ("argon2id", "argon2i"):
        for hl in list(range(0, 25)) + [31, 32, 33, 64, 128]:
            s = mkstr(alg, 3 if alg == "argon2i" else 1, 8, rbytes(rng, 16), rbytes(rng, hl))
            cs.append(Case("pwhash_str_verify %s %s" % (shex(s), hx(b"pw")), cls="pwhash_str_verify/hash-length", expect=tot, meta={"no_sodium": True}))
            cs.append(Case("pwhash_objverify_str %s %s" % (shex(s), hx(b"pw")), cls="pwhash_objverify_str/hash-length", expect=tot, meta={"no_sodium": True, "why": "object verify of a string whose stored hash has %d bytes" % hl}))
    for s in nonascii_strings(rng, 400 if tier == "quick" else 6000):
        bound = 8 * len(s.encode()) + 65536 + 1024 * 64 * 2
        cs.append(Case("pwhash_parse %s" % shex(s), cls="pwhash_parse/non-ascii", expect=tot, meta={"alloc_bound": bound, "no_sodium": True}))
        cs.append(Case("pwhash_str_verify %s %s" % (shex(s), hx(b"pw")), cls="pwhash_str_verify/non-ascii", expect=tot, meta={"alloc_bound": bound, "no_sodium": True}))
        cs.append(Case("pwhash_needs_rehash %s 2 65536" % shex(s), cls="pwhash_needs_rehash/non-ascii", expect=tot, meta={"alloc_bound": bound, "no_sodium": True}))
    n = 600 if tier == "quick" else 12000
    for s in malformed(rng, n):
        bound = 8 * len(s) + 65536 + 1024 * 64 * 2
        cs.append(Case("pwhash_parse %s" % shex(s), cls="pwhash_parse/malformed", expect=tot, meta={"alloc_bound": bound, "no_sodium": True}))
        cs.append(Case("pwhash_str_verify %s %s" % (shex(s), hx(b"pw")), cls="pwhash_str_verify/malformed", expect=tot, meta={"alloc_bound": bound, "no_sodium": True}))
        cs.append(Case("pwhash_needs_rehash %s 2 65536" % shex(s), cls="pwhash_needs_rehash/malformed", expect=tot, meta={"alloc_bound": bound, "no_sodium": True}))
    return cs
