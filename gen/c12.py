"""C12 — key derivation matches libsodium for every subkey length, id and context (DESIGN.md §7 C12)."""
from common import *
from simple import run_simple

RUNNER = "stable"
TRUSTED = [
    "Lean 4.33.0 kernel; axioms ⊆ {propext, Classical.choice, Quot.sound}",
    "that different parameter blocks give different digests is collision resistance of BLAKE2b, not a theorem; the theorem is injectivity of (length, id, context) ↦ parameter block",
]
IDS = [0, 1, 2, 255, 256, 1 << 32, (1 << 32) - 1, 1 << 63, (1 << 64) - 1]


def gen(rng, tier):
    cs = []
    reps = 3 if tier == "quick" else 60
    for ln in range(16, 65):
        for r in range(reps):
            ids = IDS + [rng.getrandbits(64) for _ in range(2)]
            key, ctx = rbytes(rng, 32), rbytes(rng, 8)
            for i in (ids if r == 0 or tier == "thorough" else ids[r::3]):
                cs.append(Case("kdf %d %s %s %s" % (ln, hx(i.to_bytes(8, "little")), hx(ctx), hx(key)), cls="kdf/len=%d" % ln, meta={"grp": (ln, r)}))
    # rejected lengths far outside the range too (the length travels through a u8 inside BLAKE2b): an error, never a panic or a
    # truncated length
    for ln in (255, 256, 257, 272, 288, 320, 512, 1000, 65536 + 32):
        cs.append(Case("kdf %d %s %s %s" % (ln, hx((7).to_bytes(8, "little")), hx(rbytes(rng, 8)), hx(rbytes(rng, 32))), cls="kdf/rejected-len-large", expect="err"))
    # the function has no memory: a derivation made right after another one with the same key, context and id but a different
    # length (longer, shorter, equal, rejected) gives what a first call gives
    for ln in (16, 17, 31, 32, 33, 48, 63, 64):
        for prev in (16, 32, 64, ln + 1 if ln < 64 else 63, 65, 0, 300):
            key, ctx, sid = rbytes(rng, 32), rbytes(rng, 8), rng.getrandbits(64)
            cs.append(Case("kdf_after %d %s %s %s %d" % (ln, hx(sid.to_bytes(8, "little")), hx(ctx), hx(key), prev), cls="kdf/after-another-call"))
    # … nor does it share state with other hashing on the same thread: a derivation made right after a streaming generichash whose
    # finalisation was REFUSED (output length 0 or > 64) while input was still buffered
    for ln in (16, 32, 64):
        for nbuf in (0, 1, 10, 127, 128, 129, 300):
            for bad in (0, 65, 100):
                key, ctx, sid = rbytes(rng, 32), rbytes(rng, 8), rng.getrandbits(64)
                cs.append(Case("kdf_after_failed_final %d %s %s %s %d %d" % (ln, hx(sid.to_bytes(8, "little")), hx(ctx), hx(key), nbuf, bad), cls="kdf/after-refused-finalisation"))
    # the object API over containers whose type does not carry the length (`Kdf<Vec<u8>, Vec<u8>>`): the 8 / 32-byte PREFIX is what
    # is used (a too short one is a caller-contract panic), never the whole Vec
    for kl in (31, 32, 33, 48, 64, 65, 100):
        for cl in (7, 8, 9, 12, 16, 17):
            key, ctx, sid = rbytes(rng, kl), rbytes(rng, cl), rng.getrandbits(64)
            cs.append(Case("kdf_obj_vec %s %s %s" % (hx(sid.to_bytes(8, "little")), hx(ctx), hx(key)), cls="kdf/object-vec-containers", meta={"panic_ok": True, "no_spec": True}))
    for ln in list(range(0, 16)) + list(range(65, 81)):
        cs.append(Case("kdf %d %s %s %s" % (ln, hx((7).to_bytes(8, "little")), hx(rbytes(rng, 8)), hx(rbytes(rng, 32))), cls="kdf/rejected-len", expect="err"))
    # different ids / contexts / lengths under one key give different subkeys
    key = rbytes(rng, 32)
    ctx = rbytes(rng, 8)
    for ln in (16, 32, 33, 64):
        for i in IDS:
            cs.append(Case("kdf %d %s %s %s" % (ln, hx(i.to_bytes(8, "little")), hx(ctx), hx(key)), cls="kdf/distinct", meta={"distinct": True}))
    for j in range(8):
        c2 = bytearray(ctx); c2[j] ^= 1
        cs.append(Case("kdf 32 %s %s %s" % (hx((1).to_bytes(8, "little")), hx(bytes(c2)), hx(key)), cls="kdf/distinct", meta={"distinct": True}))
    # degenerate operands: all-zero main key, contexts and ids whose bytes cancel under xor, interior zero bytes
    for key in (bytes(32), b"\xff" * 32, bytes(31) + b"\x01"):
        for ctx in (bytes(8), b"testtest", b"abcdabcd", b"AAAAAAAA", b"ab\x00cdefg", b"\x00" * 7 + b"\x01"):
            for sid in (0, 257, 514, 0x1111, 0x0101010101010101, 2 ** 64 - 1, 2 ** 32, 2 ** 32 + 1):
                for ln in (16, 32, 64):
                    cs.append(Case("kdf %d %s %s %s" % (ln, hx(sid.to_bytes(8, "little")), hx(ctx), hx(key)), cls="kdf/degenerate"))
    return cs


def post(res, cases, impl, model):
    seen = {}
    for c in cases:
        if c.meta.get("distinct"):
            a = impl.get(c.id, ["missing"])[0]
            if not a.startswith("ok "):
                continue
            # subkeys of different length must not be prefixes of one another either
            for other, oc in seen.items():
                o = other[3:]
                v = a[3:]
                if oc.line != c.line and (o == v or o.startswith(v) or v.startswith(o)):
                    res.violations.append({"kind": "predicate", "line": c.line, "answers": {"impl": a, "other": other, "other_request": oc.line}, "why": "different id/context/length gave the same (or a prefix-related) subkey"})
            seen[a] = c


def run(tier, seed):
    return run_simple("C12", tier, seed, gen, TRUSTED,
                      "all 49 subkey lengths × ids {0,1,2,255,256,2^32−1,2^32,2^63,2^64−1,random} × random keys/contexts, rejected lengths 0..15 and 65..80, classic and Kdf object API; pairwise distinctness (incl. prefix relation) of subkeys per batch; distinct by (op, implementation answer)",
                      ["BLAKE2b collision resistance for the distinctness sub-claim"], post=post, also_builds=("simd",), concurrent=True)
