"""C06 — Ed25519 signatures are RFC 8032 exact and verification is strict (DESIGN.md §7 C06)."""
from common import *
from simple import run_simple
import refs
from signfam import *

RUNNER = "stable"
TRUSTED = [
    "Lean 4.33.0 kernel; axioms ⊆ {propext, Classical.choice, Quot.sound}",
    "curve25519-dalek's Edwards arithmetic and sha2's SHA-512 are not verified: the Lean RFC 8032 / FIPS 180-4 specs stand for them and are compared with the implementation and libsodium on every run",
    "verify∘sign = true is proved over an abstract group; that a changed message/key bit is rejected is a SHA-512/dlog fact, enumerated concretely",
]


def gen(rng, tier):
    cs = []
    L = 96 if tier == "quick" else 600
    # the pre-hashed mode finalised straight after init (NO update call: the empty message), and with empty chunks between real ones
    for i in range(4 if tier == "quick" else 30):
        seed, pk, sk = keypair(rng)
        sig0 = refs.ed_sign(seed, b"", ph=True)
        cs.append(Case("sign_ph %s" % hx(sk), cls="sign/ph-no-update", expect="ok " + hx(sig0)))
        cs.append(Case("verify_ph %s %s" % (hx(pk), hx(sig0)), cls="verify_ph/no-update", expect="ok"))
        cs.append(Case("verify_ph %s %s" % (hx(pk), hx(refs.ed_sign(seed, bytes(64), ph=False))), cls="verify_ph/no-update-other", expect="err"))
        m1, m2 = rbytes(rng, 1 + i), rbytes(rng, 70)
        sg = refs.ed_sign(seed, m1 + m2, ph=True)
        cs.append(Case("sign_ph %s - %s - - %s -" % (hx(sk), hx(m1), hx(m2)), cls="sign/ph-empty-chunks", expect="ok " + hx(sg)))
        cs.append(Case("verify_ph %s %s - %s - %s" % (hx(pk), hx(sg), hx(m1), hx(m2)), cls="verify_ph/empty-chunks", expect="ok"))
    for n in list(range(0, L + 1)) + ([1023, 1024, 4096] if tier == "thorough" else [1024]):
        seed, pk, sk = keypair(rng)
        msg = rbytes(rng, n)
        sig = refs.ed_sign(seed, msg)
        cs.append(Case("sign %s %s" % (hx(sk), hx(msg)), cls="sign/pure", expect="ok " + hx(sig)))
        cs.append(Case("verify %s %s %s" % (hx(pk), hx(msg), hx(sig)), cls="verify/good", expect="ok"))
        sigp = refs.ed_sign(seed, msg, ph=True)
        cs.append(Case("sign_ph %s %s" % (hx(sk), hx(msg)), cls="sign/ph", expect="ok " + hx(sigp)))
        cs.append(Case("verify_ph %s %s %s" % (hx(pk), hx(sigp), hx(msg)), cls="verify_ph/good", expect="ok"))
        # mode cross-over
        cs.append(Case("verify %s %s %s" % (hx(pk), hx(msg), hx(sigp)), cls="verify/cross-mode", expect="err"))
        cs.append(Case("verify_ph %s %s %s" % (hx(pk), hx(sig), hx(msg)), cls="verify_ph/cross-mode", expect="err"))
        cs.append(Case("verify %s %s %s" % (hx(pk), hx(refs.sha512(msg)), hx(sigp)), cls="verify/cross-mode-prehash", expect="err"))
        # … and the mirror image: a PURE signature over SHA-512(m) presented to the multi-part (pre-hashed) verifier of m
        sig_over_digest = refs.ed_sign(seed, refs.sha512(msg))
        cs.append(Case("verify_ph %s %s %s" % (hx(pk), hx(sig_over_digest), hx(msg)), cls="verify_ph/cross-mode-pure-over-digest", expect="err",
                       meta={"why": "a pure-mode signature over SHA-512(m) was accepted by the pre-hashed verifier of m"}))
    # negative family on a set of base cases
    for bi in range(4 if tier == "quick" else 24):
        seed, pk, sk = keypair(rng)
        msg = rbytes(rng, [0, 1, 17, 40][bi % 4])
        sig = refs.ed_sign(seed, msg)
        for f in flips(sig):
            cs.append(Case("verify %s %s %s" % (hx(pk), hx(msg), hx(f)), cls="verify/flip-sig", expect="err"))
        for f in flips(pk):
            cs.append(Case("verify %s %s %s" % (hx(f), hx(msg), hx(sig)), cls="verify/flip-pk", expect="err"))
        for f in flips(msg):
            cs.append(Case("verify %s %s %s" % (hx(pk), hx(f), hx(sig)), cls="verify/flip-msg", expect="err"))
        cs.append(Case("verify %s %s %s" % (hx(pk), hx(msg + b"\x00"), hx(sig)), cls="verify/extend-msg", expect="err"))
        # malleation family S + kL for every k that fits in 256 bits
        S = int.from_bytes(sig[32:], "little")
        k = 1
        while S + k * refs.ED_L < (1 << 256):
            cs.append(Case("verify %s %s %s" % (hx(pk), hx(msg), hx(sig[:32] + (S + k * refs.ED_L).to_bytes(32, "little"))), cls="verify/S+kL", expect="err",
                           meta={"why": "non-canonical scalar S+%dL accepted" % k}))
            k += 1
        # small-order / non-canonical encodings as R and as public key (sign-bit variants too)
        for p in refs.ED_SMALL_ORDER + [(refs.P25519 + j).to_bytes(32, "little") for j in range(2, 19)]:
            for hb in (0, 0x80):
                q = bytearray(p); q[31] |= hb
                cs.append(Case("verify %s %s %s" % (hx(pk), hx(msg), hx(bytes(q) + sig[32:])), cls="verify/special-R", expect="err"))
                cs.append(Case("verify %s %s %s" % (hx(bytes(q)), hx(msg), hx(sig)), cls="verify/special-pk", expect="err"))
                # S = 0 with a small-order key: R = identity-like encodings
                cs.append(Case("verify %s %s %s" % (hx(bytes(q)), hx(msg), hx(bytes(q) + bytes(32))), cls="verify/special-both", expect="err"))
    import signfam as _sf
    cs += _sf.scalar_boundary_cases(rng)
    # every PREFIX of a signed message through the combined open (fewer than 64 bytes included): libsodium's decision, never a panic
    for bi in range(2 if tier == "quick" else 10):
        seed, pk, sk = keypair(rng)
        msg = rbytes(rng, 9 + bi)
        sm = refs.ed_sign(seed, msg) + msg
        for k in range(0, len(sm) + 1):
            cs.append(Case("sign_open %s %s" % (hx(pk), hx(sm[:k])), cls="sign_open/prefix", expect=("ok " + hx(msg)) if k == len(sm) else "err"))
    # malleation family in pre-hashed mode too
    for bi in range(3 if tier == "quick" else 12):
        seed, pk, sk = keypair(rng)
        msg = rbytes(rng, 5 + bi)
        sigp = refs.ed_sign(seed, msg, ph=True)
        S = int.from_bytes(sigp[32:], "little")
        k = 1
        while S + k * refs.ED_L < (1 << 256):
            cs.append(Case("verify_ph %s %s %s" % (hx(pk), hx(sigp[:32] + (S + k * refs.ED_L).to_bytes(32, "little")), hx(msg)), cls="verify_ph/S+kL", expect="err",
                           meta={"why": "non-canonical scalar S+%dL accepted in pre-hashed mode" % k}))
            k += 1
        for f in flips(sigp)[:: 7]:
            cs.append(Case("verify_ph %s %s %s" % (hx(pk), hx(f), hx(msg)), cls="verify_ph/flip-sig", expect="err"))
    # forged signatures with a small-order commitment R under a mixed-order public key (A = a·B + T):
    # they satisfy the group equation, only the small-order check on R rejects them
    for i in range(12 if tier == "quick" else 120):
        f = refs.torsion_forgery(rng, pure=(i % 3 != 2))
        if f:
            pkm, msg, sig = f
            if i % 3 != 2:
                cs.append(Case("verify %s %s %s" % (hx(pkm), hx(msg), hx(sig)), cls="verify/torsion-forgery", expect="err",
                               meta={"why": "a signature whose R has small order was accepted (mixed-order public key)"}))
            else:
                cs.append(Case("verify_ph %s %s %s" % (hx(pkm), hx(sig), hx(msg)), cls="verify_ph/torsion-forgery", expect="err",
                               meta={"why": "a pre-hashed signature whose R has small order was accepted"}))
    # signatures made with the secret scalar but with a torsion component added to R or to A: mixed-order points pass every
    # small-order check; only the exact (cofactorless) verification equation tells them apart
    for i in range(40 if tier == "quick" else 400):
        pure = i % 3 != 2
        pkm, msg, sig, strict = refs.mixed_order_sig(rng, where=("R" if i % 2 == 0 else "A"), pure=pure)
        exp = "ok" if strict else "err"
        why = "a signature with a torsion component in %s: the cofactorless equation %s it" % ("R" if i % 2 == 0 else "A", "accepts" if strict else "rejects")
        if pure:
            cs.append(Case("verify %s %s %s" % (hx(pkm), hx(msg), hx(sig)), cls="verify/mixed-order-%s" % ("R" if i % 2 == 0 else "A"), expect=exp, meta={"why": why}))
        else:
            cs.append(Case("verify_ph %s %s %s" % (hx(pkm), hx(sig), hx(msg)), cls="verify_ph/mixed-order-%s" % ("R" if i % 2 == 0 else "A"), expect=exp, meta={"why": why}))
    # seeded key pairs through every constructor (incl. from_secret_key with an inconsistent public half)
    for i in range(12 if tier == "quick" else 100):
        cs.append(Case("sign_seed_keypair %s" % hx(rbytes(rng, 32)), cls="sign_seed_keypair"))
    # a small-order public key in ANY of its encodings (canonical, non-canonical y ≥ p, "negative zero" sign bit) must be
    # refused even when the signature satisfies the group equation for it (e.g. A = identity: (R, S) = ([s]B, s) for every message)
    enc = []
    for p0 in refs.ED_SMALL_ORDER:
        for hb in (0, 0x80):
            q = bytearray(p0); q[31] |= hb
            enc.append(bytes(q))
    for pkb in dict.fromkeys(enc):
        for pure in (True, False):
            f = refs.smallorder_pk_forgery(rng, pkb, pure=pure)
            if f:
                msg, sig = f
                if pure:
                    cs.append(Case("verify %s %s %s" % (hx(pkb), hx(msg), hx(sig)), cls="verify/smallorder-pk-forgery", expect="err",
                                   meta={"why": "a signature under a small-order public key (encoding %s) was accepted" % pkb.hex()}))
                else:
                    cs.append(Case("verify_ph %s %s %s" % (hx(pkb), hx(sig), hx(msg)), cls="verify_ph/smallorder-pk-forgery", expect="err"))
    # RFC 8032 vectors
    # messages longer than 1 MiB handed over in ONE call (a hashing front end that splits large inputs must not lose the tail), and
    # in two pieces; bit flips in the last bytes must be rejected
    for n in ((1 << 20) + 5,) if tier == "quick" else ((1 << 20) - 1, 1 << 20, (1 << 20) + 1, (1 << 20) + 5, (2 << 20) + 3):
        seed, pk, sk = keypair(rng)
        msg = rbytes(rng, n)
        sig = refs.ed_sign(seed, msg)
        cs.append(Case("sign %s %s" % (hx(sk), hx(msg)), cls="sign/large", expect="ok " + hx(sig), meta={"no_spec": True}))
        cs.append(Case("verify %s %s %s" % (hx(pk), hx(msg), hx(sig)), cls="verify/large-good", expect="ok", meta={"no_spec": True}))
        t = bytearray(msg); t[-1] ^= 1
        cs.append(Case("verify %s %s %s" % (hx(pk), hx(bytes(t)), hx(sig)), cls="verify/large-flip-tail", expect="err", meta={"no_spec": True}))
        sigp = refs.ed_sign(seed, msg, ph=True)
        cs.append(Case("sign_ph %s %s" % (hx(sk), hx(msg)), cls="sign/ph-large", expect="ok " + hx(sigp), meta={"no_spec": True}))
        cs.append(Case("verify_ph %s %s %s" % (hx(pk), hx(sigp), hx(msg)), cls="verify_ph/large-good", expect="ok", meta={"no_spec": True}))

    seed = bytes.fromhex("9d61b19deffd5a60ba844af492ec2cc44449c5697b326919703bac031cae7f60")
    pk = refs.ed_public(seed)
    cs.append(Case("sign %s -" % hx(seed + pk), cls="sign/rfc8032", expect="ok e5564300c360ac729086e2cc806e828a84877f1eb8e5d974d873e065224901555fb8821590a33bacc61e39701cf9b46bd25bf5f0595bbe24655141438e7a100b"))
    return cs


def run(tier, seed):
    return run_simple("C06", tier, seed, gen, TRUSTED,
                      "seeds × messages of every length 0..=L in pure and pre-hashed mode (detached, combined, object API agree inside the runner); every single-bit mutation of (message, signature, public key) for base cases; S+kL for all k that fit; all small-order and non-canonical encodings (with sign-bit variants) as R and as public key; mode cross-overs; accept/reject compared impl vs Lean strict-verification spec vs libsodium; distinct by (op, implementation answer)",
                      ["dalek/sha2 modelled by Lean specs"], concurrent=True)
