"""C17 — a failed open releases nothing derived from the rejected ciphertext (DESIGN.md §7 C17)."""
import c02
from boxfam import CLASSIC_BUF_FORMS, c17_pred

RUNNER = "stable"


def run(tier, seed):
    return c02.run(tier, seed, prop="C17", want_pred=c17_pred, forms=CLASSIC_BUF_FORMS)
