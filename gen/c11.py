"""C11 — every randomised operation draws fresh randomness on every call (DESIGN.md §7 C11)."""
import random, re
from common import *

RUNNER = "stable"
TRUSTED = [
    "Lean 4.33.0 kernel; axioms ⊆ {propext, Classical.choice, Quot.sound}",
    "the quality of the OS generator (getrandom via rand_core::OsRng) is in the trusted base: the theorem is about the data flow from the entropy source to the result, the run adds a statistical oracle",
    "hook H3 (feature dryoc_verif) replaces the entropy source and records every request",
]

ENTRIES = ["copy_randombytes17", "copy_randombytes37", "randombytes_buf21", "stack_gen37", "array_gen20", "vec_gen33",
           "pwhash_hash_salt32", "pwhash_hash_salt21", "pwhash_hash_salt64",
           "randombytes_buf", "copy_randombytes", "secretbox_keygen", "secretbox_keygen_inplace", "box_keypair", "box_keypair_inplace",
           "kx_keypair", "kdf_keygen", "auth_keygen", "onetimeauth_keygen", "shorthash_keygen", "generichash_keygen", "sign_keypair",
           "sign_keypair_inplace", "secretstream_keygen", "secretstream_init_push", "box_seal", "box_seal_oversize", "pwhash_str",
           "stack_gen32", "stack_gen24", "array_gen32", "vec_gen32", "vec_gen8", "stack_gen8", "stack_gen5", "array_gen7", "array_gen257", "array_gen1000", "stack_gen300", "vec_gen513", "keypair_gen", "keypair_gen_with_defaults",
           "signing_keypair_gen", "signing_keypair_gen_with_defaults", "kdf_gen", "kdf_gen_with_defaults", "dryocbox_seal",
           "dryocstream_init_push", "pwhash_hash", "secretbox_nonce_gen", "secretbox_key_gen", "box_nonce_gen", "auth_key_gen",
           "onetimeauth_key_gen", "generichash_key_gen", "stream_key_gen", "kx_keypair_gen"]
NIGHTLY_ENTRIES = ["heap_gen32", "locked_gen32", "lockedro_gen32", "locked_trait_gen32", "heapbytes_gen_locked33", "locked_kdf_gen",
                   "locked_keypair_gen", "lockedro_keypair_gen", "sign_locked_keypair_gen", "sign_lockedro_keypair_gen", "locked_secretbox_key_gen"]
SLOW = {"pwhash_str": 8, "pwhash_hash": 8, "pwhash_hash_salt32": 8, "pwhash_hash_salt21": 8, "pwhash_hash_salt64": 8}   # divide the call count (Argon2 per call)


SHORT = {"vec_gen8", "stack_gen8", "stack_gen5", "array_gen7"}   # values under 16 bytes: only the constant-byte-position test applies


def judge_values(vals, short=False):
    """no value repeats, none is all-zero, no byte position is constant (judged on ≥ 16-byte values:
    for n calls of an L-byte value P[false alarm] ≤ n²·2^(-8L) + L·256·2^(-8(n-1)))"""
    if not short and len(set(vals)) != len(vals):
        return "a value repeated"
    if not short and any(set(v) <= {"0"} for v in vals):
        return "an all-zero value"
    L = len(vals[0]) // 2
    for pos in range(L):
        if len({v[2 * pos:2 * pos + 2] for v in vals}) == 1:
            return "byte position %d is constant" % pos
    return None


def run(tier, seed):
    rng = random.Random(seed)
    res = Result("C11", tier, seed)
    lean = lean_obligations("C11")
    runner = build_runner(RUNNER)
    n = 300 if tier == "quick" else 3000
    cases = []
    for e in ENTRIES:
        cnt = max(40, n // SLOW.get(e, 1))
        if True:   # values under 16 bytes (SHORT) are judged by the constant-byte-position test only; their data flow is checked by the hooked runs
            cases.append(Case("rand %s %d" % (e, cnt), cls="os-rng/" + e, meta={"entry": e}))
        big = int(re.sub(r"\D", "", e) or 0) > 64      # the hooked source must hold at least as many bytes as the entry point draws
        for k in range(3 if tier == "quick" else 20):
            cases.append(Case("randh %s %s" % (e, hx(rbytes(rng, 1024 if big else 64))), cls="hooked/" + e))
        # degenerate sources expose constants hidden behind the draw: all-zero and all-ff entropy
        cases.append(Case("randh %s %s" % (e, hx(b"\x00" * (1024 if big else 96))), cls="hooked/" + e))
        cases.append(Case("randh %s %s" % (e, hx(bytes(range(1, 97)) * (11 if big else 1))), cls="hooked/" + e))
    # the generators that only exist with the nightly feature (heap / locked containers): OS-generator statistics
    ncases = [Case("rand %s %d" % (e, max(40, n // 4)), cls="os-rng/" + e, meta={"entry": e, "nightly": True}) for e in NIGHTLY_ENTRIES]
    lines = assign_ids(cases + ncases)
    impl = run_engine(runner, lines[:len(cases)])
    impl.update(run_engine(build_runner("nightly"), lines[len(cases):]))
    cases = cases + ncases
    model = run_engine(driver_path(), lines) if lean["build_ok"] else {}
    for c in cases:
        res.evaluations += 1
        res.count(c.cls)
        i = impl.get(c.id, ["missing"])[0]
        m = model.get(c.id, ["n/a"])[0]
        answers = {"impl": i[:200], "model": m[:200]}
        if len(res.samples) < 8 and c.line.startswith("randh"):
            res.samples.append({"request": c.line, "answers": answers})
        if not i.startswith("ok "):
            res.violations.append({"kind": "impl-" + i.split(" ")[0], "line": c.line, "answers": answers, "why": "randomised entry point failed"})
            continue
        if c.line.startswith("rand "):
            vals = i[3:].split(",")
            # 8-byte values (kdf context) are judged jointly with the value they are generated with: all values here are ≥ 16 bytes
            why = judge_values(vals, short=c.meta.get("entry") in SHORT)
            for v in vals:
                res.distinct.add(v)
            if why:
                res.violations.append({"kind": "predicate", "line": c.line, "answers": {"impl": i[:400]}, "why": "over %d calls: %s" % (len(vals), why)})
        else:
            res.distinct.add(i)
            if m not in ("n/a", "bad-op") and i != m:
                # data-flow disagreement: either the result is not the draw, or the number of bytes drawn differs
                d_i = re.search(r"draws=(\S*)", i); d_m = re.search(r"draws=(\S*)", m)
                if d_i and d_m and d_i.group(1) != d_m.group(1):
                    res.violations.append({"kind": "predicate", "line": c.line, "answers": answers, "why": "the operation drew %s bytes from the entropy source, the documented data flow draws %s" % (d_i.group(1) or "0", d_m.group(1))})
                else:
                    res.corr_breaks.append({"line": c.line, "answers": answers})
    # the OS-generator statistics once more on the RELEASE-profile build (optimised, no debug assertions): a draw that only happens inside
    # a `debug_assert!`, say, shows up here and nowhere else
    if RELEASE_PASS:
        rl = [l for l, c in zip(lines, cases) if c.line.startswith("rand ") and not c.meta.get("nightly")]
        rimpl = run_engine(build_runner("release"), rl)
        for c in cases:
            if not c.line.startswith("rand ") or c.meta.get("nightly"):
                continue
            i = rimpl.get(c.id, ["missing"])[0]
            res.evaluations += 1
            res.count("release-profile/" + c.cls)
            if not i.startswith("ok "):
                res.violations.append({"kind": "impl-" + i.split(" ")[0], "line": c.line, "answers": {"impl(release profile)": i[:200]}, "why": "randomised entry point failed on the release-profile build"})
                continue
            why = judge_values(i[3:].split(","), short=c.meta.get("entry") in SHORT)
            if why:
                res.violations.append({"kind": "predicate", "line": c.line, "answers": {"impl(release profile)": i[:400]}, "why": "release-profile build: " + why})
    return conclude(res, lean, trusted=TRUSTED,
                    rule="per randomised entry point: %d calls on the OS generator (no repeat, none all-zero, no constant byte position; false-alarm probability < 2^-100) and hooked runs where the implementation's result and the sizes of its draws are compared with the Lean data-flow model; distinct = distinct random values observed" % n,
                    assumptions=["OS entropy quality"])
