"""Shared generators for the secretbox / box / sealed-box family (C01, C02, C04, C17)."""
from common import *
import refs

SENT = 0xA5  # sentinel byte filling caller message buffers


class Inst:
    """one honest encryption: all key material, nonce, message and the reference ciphertexts"""
    def __init__(self, rng, n, style=0):
        self.msg = rbytes(rng, n) if style % 3 == 0 else (b"\xff" * n if style % 3 == 1 else b"\x00" * n)
        self.key = rbytes(rng, 32)
        self.nonce = rbytes(rng, 24) if style % 5 else (b"\x00" * 24 if style % 2 else b"\xff" * 24)
        self.ssk, self.rsk = rbytes(rng, 32), rbytes(rng, 32)
        self.spk, self.rpk = refs.x25519_base(self.ssk), refs.x25519_base(self.rsk)
        self.esk = rbytes(rng, 32)
        self.shared = refs.box_beforenm(self.rpk, self.ssk)
        self.sb = refs.secretbox(self.key, self.nonce, self.msg)       # tag ‖ c
        self.bx = refs.secretbox(self.shared, self.nonce, self.msg)
        self.sealed = refs.box_seal(self.rpk, self.esk, self.msg)


class CornerInst(Inst):
    """an honest encryption whose ciphertext drives the Poly1305 accumulator onto a carry / final-reduction corner
    (the accumulator before the final reduction is ≡ 0..4 or p−1.. mod p): the message is solved from the key stream"""
    def __init__(self, rng, which="secret"):
        while True:
            Inst.__init__(self, rng, 0, style=0)
            key = self.key if which == "secret" else self.shared
            ks = refs.xsalsa20_stream(key, self.nonce, 32 + 80)
            r = int.from_bytes(ks[:16], "little") & refs.CLAMP
            if r == 0:
                continue
            prefix = refs.poly_corner_stream(rng, r, rng.randrange(0, 4)) if rng.random() < 0.5 else rbytes(rng, 16 * rng.randrange(0, 4))
            T = rng.choice(refs.POLY_TARGETS)
            blk = refs.poly_solve_last_block(r, prefix, T)
            if blk is None:
                continue
            c = prefix + blk
            self.msg = refs.xor(c, ks[32:32 + len(c)])
            self.sb = refs.secretbox(self.key, self.nonce, self.msg)
            self.bx = refs.secretbox(self.shared, self.nonce, self.msg)
            self.sealed = refs.box_seal(self.rpk, self.esk, self.msg)
            self.target = T
            assert (self.sb if which == "secret" else self.bx)[16:] == c
            return


def buf(n):
    return bytes([SENT]) * n


ENC_FORMS = ["secretbox_easy", "secretbox_detached", "secretbox_easy_inplace", "box_detached_afternm",
             "box_detached_afternm_inplace", "box_easy", "box_easy_inplace", "box_detached", "box_detached_inplace",
             "box_seal", "sbobj_encrypt vec", "sbobj_encrypt stack", "sbobj_into_vec x", "boxobj_encrypt vec", "boxobj_encrypt stack",
             "boxobj_precalc_encrypt vec", "boxobj_precalc_encrypt stack", "boxobj_vecforms x", "sbobj_vecforms x", "boxobj_seal vec", "boxobj_seal stack"]


def enc_case(form, I):
    f = form.split(" ")[0]
    if f.startswith("secretbox") or f.startswith("sbobj") or "afternm" in f:
        key = I.key if not "afternm" in f else I.shared
        line = "%s %s %s %s" % (form, hx(key), hx(I.nonce), hx(I.msg))
        ref = I.sb if key is I.key else I.bx
    elif f in ("box_seal", "boxobj_seal"):
        line = "%s %s %s %s" % (form, hx(I.rpk), hx(I.msg), hx(I.esk))
        ref = I.sealed
    else:
        line = "%s %s %s %s %s" % (form, hx(I.rpk), hx(I.ssk), hx(I.nonce), hx(I.msg))
        ref = I.bx
    if "detached" in f:
        exp = "ok %s %s" % (hx(ref[:16]), hx(ref[16:]))
    else:
        exp = "ok " + hx(ref)
    return Case(line, cls="enc/" + f, expect=(lambda a, e=exp: a == e), meta={"why": "ciphertext differs from the NaCl construction (python reference)"})


OPEN_FORMS = ["secretbox_open_easy", "secretbox_open_detached", "secretbox_open_easy_inplace",
              "box_open_detached_afternm", "box_open_detached_afternm_inplace",
              "box_open_easy", "box_open_detached", "box_open_easy_inplace", "box_open_detached_inplace",
              "box_seal_open", "sbobj_decrypt vec", "sbobj_decrypt stack", "boxobj_decrypt vec", "boxobj_decrypt stack",
              "boxobj_precalc_decrypt vec", "boxobj_unseal vec", "boxobj_unseal stack"]

CLASSIC_BUF_FORMS = [f for f in OPEN_FORMS if "obj" not in f]


def open_line(form, I, ct=None, nonce=None, key=None, mbuf=None, epk=None):
    """request line opening `ct` (combined layout tag‖c, or epk‖tag‖c for sealed forms)."""
    f = form.split(" ")[0]
    nonce = I.nonce if nonce is None else nonce
    sealed = "seal" in f
    if ct is None:
        ct = I.sealed if sealed else (I.sb if (f.startswith("secretbox") or f.startswith("sbobj")) else I.bx)
    over = 48 if sealed else 16
    if mbuf is None:
        mbuf = buf(max(0, len(ct) - over))
    if f.startswith("secretbox") or f.startswith("sbobj") or "afternm" in f:
        k = key if key is not None else (I.shared if "afternm" in f else I.key)
        head = "%s %s %s" % (form, hx(k), hx(nonce))
    elif sealed:
        head = "%s %s %s" % (form, hx(I.rpk), hx(I.rsk))
    else:
        head = "%s %s %s %s" % (form, hx(I.spk), hx(I.rsk), hx(nonce))
    if "detached" in f:
        if len(ct) < 16:
            return None
        body = "%s %s" % (hx(ct[:16]), hx(ct[16:]))
    else:
        body = hx(ct)
    if "obj" in f or "inplace" in f:
        return "%s %s" % (head, body)
    return "%s %s %s" % (head, body, hx(mbuf))


def c17_pred(initial):
    """after an error the reported buffer equals its initial contents or is all zero"""
    ih = hx(initial)
    def p(ans):
        if not ans.startswith("err"):
            return False
        if " buf=" not in ans:
            return True
        b = ans.split(" buf=")[1]
        return b == ih or b == "-" or set(b) <= {"0"}
    return p


def tamper_family(rng, I, form, full=True):
    """yield (label, line, initial_buffer) for every single corruption of one honest instance under one API form"""
    f = form.split(" ")[0]
    sealed = "seal" in f
    secret = f.startswith("secretbox") or f.startswith("sbobj")
    ct = I.sealed if sealed else (I.sb if secret else I.bx)
    over = 48 if sealed else 16
    out = []
    def emit(label, **kw):
        c = kw.get("ct", ct)
        line = open_line(form, I, **kw)
        if line is None:
            return
        if "inplace" in f:
            initial = c[16:] if "detached" in f else c
        else:
            initial = buf(max(0, len(c) - over))
        out.append((label, line, initial))
    # every bit of the wire bytes (epk | tag | body)
    for i in range(len(ct) * 8):
        t = bytearray(ct); t[i // 8] ^= 1 << (i % 8)
        part = "epk" if sealed and i < 256 else ("tag" if i < over * 8 else "body")
        emit("flip-" + part, ct=bytes(t))
    if not sealed:
        for i in range(24 * 8):
            t = bytearray(I.nonce); t[i // 8] ^= 1 << (i % 8)
            emit("flip-nonce", nonce=bytes(t))
    if secret or "afternm" in f:
        k0 = I.key if secret else I.shared
        for i in range(32 * 8):
            t = bytearray(k0); t[i // 8] ^= 1 << (i % 8)
            emit("flip-key", key=bytes(t))
    # an oversized caller buffer (e.g. a fixed receive buffer) with a corrupted tag / body
    if "inplace" not in f and "obj" not in f and not sealed and len(ct) > 16:
        for extra in (1, 7, 64):
            big = buf(len(ct) - over + extra)
            t = bytearray(ct); t[0] ^= 1
            out.append(("oversized-buf-tag", open_line(form, I, ct=bytes(t), mbuf=big), big))
            t = bytearray(ct); t[-1] ^= 0x80
            out.append(("oversized-buf-body", open_line(form, I, ct=bytes(t), mbuf=big), big))
    # truncations (every length) and extensions
    for n in range(len(ct)):
        emit("truncate", ct=ct[:n])
    for e in (1, 15, 16, 17, 64):
        emit("extend", ct=ct + rbytes(rng, e))
        emit("extend0", ct=ct + b"\x00" * e)
    # an extended ciphertext opened into a buffer sized for the ORIGINAL plaintext (a receiver expecting a fixed-size message):
    # the code may refuse by Err or by a slice-bounds panic (caller-contract breach), but it must never return a message
    if "inplace" not in f and "obj" not in f:
        for e in (1, 16, 33):
            small = buf(len(ct) - over)
            out.append(("extend-shortbuf", open_line(form, I, ct=ct + rbytes(rng, e), mbuf=small), small))
            out.append(("extend-shortbuf", open_line(form, I, ct=ct + b"\x00" * e, mbuf=small), small))
    return out


def oversized_authentic(I, extras=(1, 7, 64, 200)):
    """an AUTHENTIC box opened into a receive buffer longer than the message (a fixed receive buffer): Ok, the message in the prefix,
    the rest of the buffer as it was.  libsodium has no buffer length to compare with; judged by the expected answer and the model."""
    out = []
    for form in CLASSIC_BUF_FORMS:
        f = form.split(" ")[0]
        if "inplace" in f or "seal" in f:
            continue
        for extra in extras:
            big = buf(len(I.msg) + extra)
            line = open_line(form, I, mbuf=big)
            exp = "ok " + hx(I.msg + buf(extra))
            out.append(Case(line, cls="open-oversized-buffer/" + f, expect=(lambda a, e=exp: a == e),
                            meta={"no_sodium": True, "no_spec": True, "why": "authentic box opened into a buffer %d bytes longer than the message" % extra}))
    return out
