"""C02 — any tampering with an authenticated ciphertext is rejected (DESIGN.md §7 C02)."""
import random
from common import *
from boxfam import *
try:
    import streamfam
except ImportError:
    streamfam = None

RUNNER = "stable"
TRUSTED = [
    "Lean 4.33.0 kernel; axioms ⊆ {propext, Classical.choice, Quot.sound}",
    "that two different MAC inputs/keys give different Poly1305 tags is a cryptographic fact, NOT a theorem: theorems state the complete accept/reject decision procedure, unconditional rejection of tag changes and truncations, and injectivity of the MAC input; each enumerated fault is evaluated concretely by the Lean model (real MAC) and the implementation",
    "correspondence check: python generator/differ, Rust runner, Lean driver; XSalsa20/ChaCha20/X25519 crates modelled by Lean specs",
]

SECRET_FORMS = [f for f in OPEN_FORMS if f.split(" ")[0].startswith(("secretbox", "sbobj")) or "afternm" in f]
DH_FORMS = [f for f in OPEN_FORMS if f not in SECRET_FORMS]


def family(rng, tier, forms_secret=SECRET_FORMS, forms_dh=DH_FORMS, want_pred=None):
    cs = []
    if tier == "quick":
        lens_s, lens_d = list(range(0, 33)), [0, 1, 15, 16, 17, 33]
    else:
        lens_s, lens_d = list(range(0, 161)) + [1024, 4096], list(range(0, 49)) + [160, 1024]
    for group, lens in ((forms_secret, lens_s), (forms_dh, lens_d)):
        for idx, n in enumerate(lens):
            I = Inst(rng, n, style=idx)
            for form in group:
                f = form.split(" ")[0]
                if n > 200 and "obj" in f:
                    continue
                line = open_line(form, I)
                cs.append(Case(line, cls="untampered/" + f, expect=(lambda a, e="ok " + hx(I.msg): a == e),
                               meta={"why": "the untampered ciphertext was not accepted"}))
                fam = tamper_family(rng, I, form)
                if n > 200:   # long messages: sample the bit flips (every 61st) — the rest is identical code
                    fam = [x for j, x in enumerate(fam) if not x[0].startswith("flip-body") or j % 61 == 0]
                for label, l, initial in fam:
                    if label == "extend-shortbuf":
                        cs.append(Case(l, cls=label + "/" + f, expect=(lambda a: not a.startswith("ok")),
                                       meta={"why": "an extended ciphertext was accepted when the caller's buffer has the original plaintext length",
                                             "panic_ok": True, "no_sodium": True, "no_spec": True}))
                        continue
                    pred = want_pred(initial) if want_pred else (lambda a: a.startswith("err"))
                    cs.append(Case(l, cls=label + "/" + f, expect=pred, meta={"why": "a tampered input (%s) was not rejected" % label}))
    return cs


def corner_cases(rng, tier, want_pred=None, forms=None):
    """honest ciphertexts that drive the Poly1305 accumulator onto a final-reduction / carry corner (≡ 0..4, p−1.. mod p, 2^128, …):
    accepted untampered, and rejected when the authenticator is moved by the small amounts a lost carry or a skipped `− p` would
    produce (±1, ±5, ± 2^44, ± 2^88, …).  Random keys reach these accumulators with probability ≈ 2⁻¹²⁸."""
    cs = []
    deltas = [1, -1, 5, -5, 4, 1 << 44, -(1 << 44), 1 << 88, -(1 << 88), 1 << 127]
    for k in range(24 if tier == "quick" else 200):
        for which in ("secret", "dh"):
            I = CornerInst(rng, which)
            for form in OPEN_FORMS:
                if forms is not None and form not in forms:
                    continue
                f = form.split(" ")[0]
                if "seal" in f:
                    continue    # the sealed-box key is not the one the corner was solved for
                uses_secret_key = f.startswith("secretbox") or f.startswith("sbobj")
                if uses_secret_key != (which == "secret"):
                    continue
                ct = I.sb if uses_secret_key else I.bx
                cs.append(Case(open_line(form, I), cls="corner-untampered/" + f, expect=(lambda a, e="ok " + hx(I.msg): a == e),
                               meta={"why": "an honest ciphertext whose Poly1305 accumulator is ≡ %d (mod 2^130−5) before the final reduction was refused" % I.target}))
                tag = int.from_bytes(ct[:16], "little")
                for d in deltas:
                    t2 = ((tag + d) % (1 << 128)).to_bytes(16, "little") + ct[16:]
                    initial = (t2[16:] if "detached" in f else t2) if "inplace" in f else buf(len(t2) - 16)
                    pred = want_pred(initial) if want_pred else (lambda a: a.startswith("err"))
                    cs.append(Case(open_line(form, I, ct=t2), cls="corner-tag-moved/" + f, expect=pred,
                                   meta={"why": "authenticator moved by %d on a corner accumulator was accepted" % d}))
    return cs


def large_cases(rng, want_pred=None):
    """beyond every small-length sweep: bodies just above 64 KiB, one corruption each, every classic open form"""
    cs = []
    for n in (65536, 65537, 70001, (1 << 20) - 1, 1 << 20, (1 << 20) + 1):
        I = Inst(rng, n, style=0)
        for form in OPEN_FORMS:
            f = form.split(" ")[0]
            if "obj" in f:
                continue
            sealed = "seal" in f
            secret = f.startswith("secretbox")
            ct = I.sealed if sealed else (I.sb if secret else I.bx)
            over = 48 if sealed else 16
            cs.append(Case(open_line(form, I), cls="large-untampered/" + f, expect=(lambda a, e="ok " + hx(I.msg): a == e)))
            for pos in ((over - 1, over, len(ct) // 2, len(ct) - 1) if n < (1 << 19) else (len(ct) // 2,)):
                t = bytearray(ct); t[pos] ^= 0x10
                t = bytes(t)
                if "inplace" in f:
                    initial = t[16:] if "detached" in f else t
                else:
                    initial = buf(len(t) - over)
                pred = want_pred(initial) if want_pred else (lambda a: a.startswith("err"))
                cs.append(Case(open_line(form, I, ct=t), cls="large-flip/" + f, expect=pred, meta={"why": "a tampered %d-byte input was not rejected cleanly" % n}))
    return cs


def gen(rng, tier):
    cs = corpus_cases("C02") + family(rng, tier) + large_cases(rng) + corner_cases(rng, tier)
    if streamfam:
        cs += streamfam.tamper_cases(rng, tier)
    return cs


def run(tier, seed, prop="C02", want_pred=None, forms=None):
    rng = random.Random(seed)
    res = Result(prop, tier, seed)
    lean = lean_obligations(prop)
    runner = build_runner(RUNNER)
    if prop == "C02":
        cases = gen(rng, tier)
    else:
        cases = corpus_cases(prop) + family(rng, tier, forms_secret=[f for f in SECRET_FORMS if f in forms], forms_dh=[f for f in DH_FORMS if f in forms], want_pred=want_pred) + large_cases(rng, want_pred) + corner_cases(rng, tier, want_pred, forms)
        if streamfam:
            cases += streamfam.tamper_cases(rng, tier, c17=True)
            cases += streamfam.short_buffer_cases(rng, c17=True)
        # an UNDERSIZED message buffer handed to a classic opening form together with a tampered (or genuine) ciphertext: a panic is
        # the documented caller contract for most forms; whatever the outcome, an error must leave the buffer as it was
        for n in (1, 5, 16, 17, 40):
            I = Inst(rng, n, style=0)
            for form in forms:
                f = form.split(" ")[0]
                if "inplace" in f or "obj" in f:
                    continue
                sealed = "seal" in f
                ct = I.sealed if sealed else (I.sb if f.startswith("secretbox") else I.bx)
                over = 48 if sealed else 16
                for short in sorted({1, n // 2 or 1, n}):
                    for tam in (True, False):
                        c = bytearray(ct)
                        if tam:
                            c[over + rng.randrange(n)] ^= 1 << rng.randrange(8)
                        mb = buf(n - short)
                        line = open_line(form, I, ct=bytes(c), mbuf=mb)
                        if line is None:
                            continue
                        pr = (lambda a, p0=want_pred(mb): a == "panic" or p0(a))
                        cases.append(Case(line, cls="short-buffer/" + f, expect=pr, meta={"panic_ok": True, "no_sodium": True, "no_spec": True, "why": "undersized message buffer: panic (caller contract) or an error that leaves the buffer untouched"}))
    if prop == "C17":
        # boxes "from" a peer whose public key has small order (anyone can make them: the shared key is HSalsa20(0)): whatever a form
        # decides — dryoc opens them (F17), libsodium refuses — an Err must leave the buffer untouched; sealed boxes with such an
        # ephemeral key likewise.  Judged by the predicate and the Lean model (no libsodium column: it differs by F17).
        for i, u in enumerate(list(refs.X_LOW_ORDER)[:7]):
            for n in (1, 20, 70):
                I = Inst(rng, n, style=0)
                shared = refs.hsalsa20(bytes(32), bytes(16))
                ct = refs.secretbox(shared, I.nonce, I.msg)
                for form in forms:
                    f = form.split(" ")[0]
                    if not f.startswith("box_open") or "afternm" in f:
                        continue
                    I2 = I; old_spk = I.spk
                    I.spk = u
                    for tam in (False, True):
                        c = bytearray(ct)
                        if tam:
                            c[16 + (i % n)] ^= 0x04
                        line = open_line(form, I, ct=bytes(c))
                        initial = (bytes(c)[16:] if "detached" in f else bytes(c)) if "inplace" in f else buf(n)
                        p0 = want_pred(initial)
                        cases.append(Case(line, cls="small-order-peer/" + f, expect=(lambda a, p0=p0, tam=tam: (a.startswith("ok ") and not tam) or p0(a)),
                                          meta={"no_sodium": True, "no_spec": True, "why": "box under a small-order peer key: Ok with the message, or Err with the buffer untouched"}))
                    I.spk = old_spk
                sealed = u + refs.secretbox(shared, refs.seal_nonce(u, I.rpk), I.msg)
                for tam in (False, True):
                    c = bytearray(sealed)
                    if tam:
                        c[48] ^= 1
                    mb = buf(n)
                    cases.append(Case("box_seal_open %s %s %s %s" % (hx(I.rpk), hx(I.rsk), hx(bytes(c)), hx(mb)), cls="small-order-peer/box_seal_open",
                                      expect=(lambda a, p0=want_pred(mb), tam=tam: (a.startswith("ok ") and not tam) or p0(a)), meta={"no_sodium": True, "no_spec": True}))
    errcases = []
    if prop == "C17":
        # the ERROR VALUE is a caller-visible output too: its text must not describe the rejected data.  For each form and length the
        # Display text of the error is collected over corruptions of every tag byte, body bytes, the nonce and the key; all must be equal.
        for n in (0, 1, 20, 33):
            I = Inst(rng, n, style=0)
            def muts(ct, over):
                out = []
                for pos in list(range(0, over)) + ([over, len(ct) - 1] if len(ct) > over else []):
                    for bit in (0x01, 0x80):
                        t = bytearray(ct); t[pos] ^= bit; out.append(bytes(t))
                for _ in range(4):
                    t = bytearray(ct); t[over - 16:over] = rbytes(rng, 16); out.append(bytes(t))
                return out
            for j, ct in enumerate(muts(I.sb, 16)):
                errcases.append(Case("errtext_secretbox %s %s %s" % (hx(I.key), hx(I.nonce), hx(ct)), cls="errtext/secretbox", meta={"errgroup": ("secretbox", n)}))
            errcases.append(Case("errtext_secretbox %s %s %s" % (hx(rbytes(rng, 32)), hx(I.nonce), hx(I.sb)), cls="errtext/secretbox", meta={"errgroup": ("secretbox", n)}))
            for j, ct in enumerate(muts(I.bx, 16)):
                errcases.append(Case("errtext_box %s %s %s %s" % (hx(I.spk), hx(I.rsk), hx(I.nonce), hx(ct)), cls="errtext/box", meta={"errgroup": ("box", n)}))
            for j, ct in enumerate(muts(I.sealed, 48)):
                errcases.append(Case("errtext_seal %s %s %s" % (hx(I.rpk), hx(I.rsk), hx(ct)), cls="errtext/seal", meta={"errgroup": ("seal", n)}))
    lines = assign_ids(cases + errcases)
    impl = run_engine(runner, lines)
    model = run_engine(driver_path(), lines[:len(cases)]) if lean["build_ok"] else {}
    standard_compare(res, cases, impl, model, check_sodium=True)
    groups = {}
    for c in errcases:
        a = impl.get(c.id, ["missing"])[0]
        res.evaluations += 1
        res.count(c.cls)
        if not a.startswith("ok "):
            res.violations.append({"kind": "impl-" + a.split(" ")[0], "line": c.line, "answers": {"impl": a[:200]}, "why": "error-text probe failed"})
            continue
        txt = bytes.fromhex(a[3:]).decode("utf-8", "replace")
        if "=OK" in txt:
            res.violations.append({"kind": "predicate", "line": c.line, "answers": {"impl": txt[:300]}, "why": "a corrupted input was accepted by one opening form"})
            continue
        groups.setdefault(c.meta["errgroup"], {}).setdefault(txt, c)
    for g, texts in groups.items():
        if len(texts) > 1:
            (t1, c1), (t2, c2) = list(texts.items())[:2]
            res.violations.append({"kind": "predicate", "line": c2.line, "answers": {"error text": t2[:300], "error text of another rejected input of the same length": t1[:300], "other_request": c1.line},
                                   "why": "the error returned by a failed open depends on the rejected data (%d different texts for %s, message length %d)" % (len(texts), g[0], g[1])})
    if tier == "thorough" and lean["build_ok"]:
        okc, out = leanchecker(prop)
        res.extra["leanchecker"] = "ok" if okc else out
        if not okc:
            lean["failed"].append("leanchecker: " + out[-300:])
    res.extra["exhaustive_family"] = "every single-bit flip of tag/body/nonce/key/epk (and stream header/AD), every truncation length, extensions by 1,15,16,17,64 bytes, per message length and API form"
    return conclude(res, lean, trusted=TRUSTED,
                    rule="exhaustive single-fault family per (API form, message length); a case is distinct by (op, implementation answer) — non-trivial = the request reached the implementation and produced ok/err",
                    assumptions=["Poly1305 tags of distinct inputs differ (checked concretely on every enumerated fault by evaluating the real MAC in the Lean model)"])
