"""Small pure-Python references used only by the *generators* (to build valid
authenticators that are then mutated, and to solve for corner operands).  They
are not oracles: verdicts come from the Lean spec/model and libsodium."""
import hashlib, hmac as _hmac

P1305 = (1 << 130) - 5
CLAMP = 0x0ffffffc0ffffffc0ffffffc0fffffff


def poly1305_acc(r, msg):
    h = 0
    for i in range(0, len(msg), 16):
        blk = msg[i:i + 16]
        c = int.from_bytes(blk, "little") + (1 << (8 * len(blk)))
        h = (h + c) * r % P1305
    return h


def poly1305(key, msg):
    r = int.from_bytes(key[:16], "little") & CLAMP
    s = int.from_bytes(key[16:32], "little")
    return ((poly1305_acc(r, msg) + s) % (1 << 128)).to_bytes(16, "little")


def hmac512256(key, msg):
    return _hmac.new(key, msg, hashlib.sha512).digest()[:32]


def blake2b(outlen, key, msg, salt=b"", person=b""):
    return hashlib.blake2b(msg, digest_size=outlen, key=key, salt=salt, person=person).digest()


def sha512(msg):
    return hashlib.sha512(msg).digest()
