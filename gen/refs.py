"""Small pure-Python references used only by the *generators* (to build valid
authenticators that are then mutated, and to solve for corner operands).  They
are not oracles: verdicts come from the Lean spec/model and libsodium."""
import hashlib, hmac as _hmac

P1305 = (1 << 130) - 5
CLAMP = 0x0ffffffc0ffffffc0ffffffc0fffffff


def poly1305_acc(r, msg):
    h = 0
    for i in range(0, len(msg), 16):
        blk = msg[i:i + 16]
        c = int.from_bytes(blk, "little") + (1 << (8 * len(blk)))
        h = (h + c) * r % P1305
    return h


def poly1305(key, msg):
    r = int.from_bytes(key[:16], "little") & CLAMP
    s = int.from_bytes(key[16:32], "little")
    return ((poly1305_acc(r, msg) + s) % (1 << 128)).to_bytes(16, "little")


def hmac512256(key, msg):
    return _hmac.new(key, msg, hashlib.sha512).digest()[:32]


def blake2b(outlen, key, msg, salt=b"", person=b""):
    return hashlib.blake2b(msg, digest_size=outlen, key=key, salt=salt, person=person).digest()


def sha512(msg):
    return hashlib.sha512(msg).digest()

# ---------------------------------------------------------------- Salsa20 / XSalsa20 / secretbox
M32 = 0xffffffff


def _rotl(x, n):
    return ((x << n) & M32) | (x >> (32 - n))


def _salsa_rounds(x):
    x = list(x)
    def qr(a, b, c, d):
        x[b] ^= _rotl((x[a] + x[d]) & M32, 7)
        x[c] ^= _rotl((x[b] + x[a]) & M32, 9)
        x[d] ^= _rotl((x[c] + x[b]) & M32, 13)
        x[a] ^= _rotl((x[d] + x[c]) & M32, 18)
    for _ in range(10):
        qr(0, 4, 8, 12); qr(5, 9, 13, 1); qr(10, 14, 2, 6); qr(15, 3, 7, 11)
        qr(0, 1, 2, 3); qr(5, 6, 7, 4); qr(10, 11, 8, 9); qr(15, 12, 13, 14)
    return x


SIGMA = [0x61707865, 0x3320646e, 0x79622d32, 0x6b206574]


def _words(b):
    return [int.from_bytes(b[i:i + 4], "little") for i in range(0, len(b), 4)]


def _bytes(ws):
    return b"".join(w.to_bytes(4, "little") for w in ws)


def hsalsa20(key, inp, c=None):
    c = _words(c) if c else SIGMA
    k, n = _words(key), _words(inp)
    x = [c[0], k[0], k[1], k[2], k[3], c[1], n[0], n[1], n[2], n[3], c[2], k[4], k[5], k[6], k[7], c[3]]
    z = _salsa_rounds(x)
    return _bytes([z[0], z[5], z[10], z[15], z[6], z[7], z[8], z[9]])


def salsa20_block(key, nonce8, ctr):
    k, n = _words(key), _words(nonce8)
    x = [SIGMA[0], k[0], k[1], k[2], k[3], SIGMA[1], n[0], n[1], ctr & M32, (ctr >> 32) & M32, SIGMA[2], k[4], k[5], k[6], k[7], SIGMA[3]]
    z = _salsa_rounds(x)
    return _bytes([(a + b) & M32 for a, b in zip(x, z)])


def xsalsa20_stream(key, nonce24, n):
    sub = hsalsa20(key, nonce24[:16])
    out = b""
    ctr = 0
    while len(out) < n:
        out += salsa20_block(sub, nonce24[16:], ctr)
        ctr += 1
    return out[:n]


def xor(a, b):
    return bytes(x ^ y for x, y in zip(a, b))


def secretbox(key, nonce, msg):
    ks = xsalsa20_stream(key, nonce, 32 + len(msg))
    c = xor(msg, ks[32:])
    return poly1305(ks[:32], c) + c


# ---------------------------------------------------------------- X25519
P25519 = (1 << 255) - 19


def x25519(k, u):
    kk = bytearray(k)
    kk[0] &= 248; kk[31] &= 127; kk[31] |= 64
    kn = int.from_bytes(kk, "little")
    un = int.from_bytes(u, "little") & ((1 << 255) - 1)
    x1, x2, z2, x3, z3, swap = un, 1, 0, un, 1, 0
    for t in range(254, -1, -1):
        kt = (kn >> t) & 1
        swap ^= kt
        if swap:
            x2, x3, z2, z3 = x3, x2, z3, z2
        swap = kt
        A = (x2 + z2) % P25519; AA = A * A % P25519
        B = (x2 - z2) % P25519; BB = B * B % P25519
        E = (AA - BB) % P25519
        C = (x3 + z3) % P25519; D = (x3 - z3) % P25519
        DA = D * A % P25519; CB = C * B % P25519
        x3 = (DA + CB) ** 2 % P25519
        z3 = x1 * (DA - CB) ** 2 % P25519
        x2 = AA * BB % P25519
        z2 = E * (AA + 121665 * E) % P25519
    if swap:
        x2, x3, z2, z3 = x3, x2, z3, z2
    return (x2 * pow(z2, P25519 - 2, P25519) % P25519).to_bytes(32, "little")


BASE = (9).to_bytes(32, "little")


def x25519_base(k):
    return x25519(k, BASE)


def box_beforenm(pk, sk):
    return hsalsa20(x25519(sk, pk), b"\x00" * 16)


def box(pk, sk, nonce, msg):
    return secretbox(box_beforenm(pk, sk), nonce, msg)


def seal_nonce(epk, rpk):
    return blake2b(24, b"", epk + rpk)


def box_seal(rpk, esk, msg):
    epk = x25519_base(esk)
    return epk + box(rpk, esk, seal_nonce(epk, rpk), msg)

# ---------------------------------------------------------------- Ed25519 (RFC 8032 reference, for generating valid signatures)
ED_D = -121665 * pow(121666, P25519 - 2, P25519) % P25519
ED_L = 2 ** 252 + 27742317777372353535851937790883648493
ED_I = pow(2, (P25519 - 1) // 4, P25519)


def _ed_add(P, Q):
    A = (P[1] - P[0]) * (Q[1] - Q[0]) % P25519
    B = (P[1] + P[0]) * (Q[1] + Q[0]) % P25519
    C = 2 * P[3] * Q[3] * ED_D % P25519
    D = 2 * P[2] * Q[2] % P25519
    E, F, G, H = B - A, D - C, D + C, B + A
    return (E * F % P25519, G * H % P25519, F * G % P25519, E * H % P25519)


def _ed_mul(s, P):
    Q = (0, 1, 1, 0)
    while s > 0:
        if s & 1:
            Q = _ed_add(Q, P)
        P = _ed_add(P, P)
        s >>= 1
    return Q


def _ed_recover_x(y, sign):
    if y >= P25519:
        return None
    x2 = (y * y - 1) * pow(ED_D * y * y + 1, P25519 - 2, P25519) % P25519
    if x2 == 0:
        return None if sign else 0
    x = pow(x2, (P25519 + 3) // 8, P25519)
    if (x * x - x2) % P25519 != 0:
        x = x * ED_I % P25519
    if (x * x - x2) % P25519 != 0:
        return None
    if (x & 1) != sign:
        x = P25519 - x
    return x


_gy = 4 * pow(5, P25519 - 2, P25519) % P25519
_gx = _ed_recover_x(_gy, 0)
ED_G = (_gx, _gy, 1, _gx * _gy % P25519)


def ed_compress(P):
    zinv = pow(P[2], P25519 - 2, P25519)
    x, y = P[0] * zinv % P25519, P[1] * zinv % P25519
    return int.to_bytes(y | ((x & 1) << 255), 32, "little")


def ed_secret_expand(seed):
    h = sha512(seed)
    a = int.from_bytes(h[:32], "little")
    a &= (1 << 254) - 8
    a |= 1 << 254
    return a, h[32:]


def ed_public(seed):
    a, _ = ed_secret_expand(seed)
    return ed_compress(_ed_mul(a, ED_G))


DOM2 = b"SigEd25519 no Ed25519 collisions\x01\x00"


def ed_sign(seed, msg, ph=False):
    a, prefix = ed_secret_expand(seed)
    A = ed_compress(_ed_mul(a, ED_G))
    dom = DOM2 if ph else b""
    m = sha512(msg) if ph else msg
    r = int.from_bytes(sha512(dom + prefix + m), "little") % ED_L
    Rs = ed_compress(_ed_mul(r, ED_G))
    h = int.from_bytes(sha512(dom + Rs + A + m), "little") % ED_L
    s = (r + h * a) % ED_L
    return Rs + int.to_bytes(s, 32, "little")


ED_SMALL_ORDER = [
    bytes(32), bytes([1]) + bytes(31),
    bytes.fromhex("26e8958fc2b227b045c3f489f2ef98f0d5dfac05d3c63339b13802886d53fc05"),
    bytes.fromhex("c7176a703d4dd84fba3c0b760d10670f2a2053fa2c39ccc64ec7fd7792ac037a"),
    bytes([0xec]) + b"\xff" * 30 + b"\x7f", bytes([0xed]) + b"\xff" * 30 + b"\x7f", bytes([0xee]) + b"\xff" * 30 + b"\x7f",
]

X_LOW_ORDER = [
    bytes(32), bytes([1]) + bytes(31),
    bytes.fromhex("e0eb7a7c3b41b8ae1656e3faf19fc46ada098deb9c32b1fd866205165f49b800"),
    bytes.fromhex("5f9c95bca3508c24b1d0b1559c83ef5b04445cc4581c8e86d8224eddd09f1157"),
    bytes([0xec]) + b"\xff" * 30 + b"\x7f", bytes([0xed]) + b"\xff" * 30 + b"\x7f", bytes([0xee]) + b"\xff" * 30 + b"\x7f",
]


def ed_decode(b):
    """RFC 8032 decoding (lenient about small-order points), None if not on the curve"""
    y = int.from_bytes(b, "little")
    sign = y >> 255
    y &= (1 << 255) - 1
    x = _ed_recover_x(y % P25519, sign) if y < P25519 else None
    if x is None:
        return None
    return (x, y, 1, x * y % P25519)


def ed_neg(P):
    return ((-P[0]) % P25519, P[1], P[2], (-P[3]) % P25519)


def torsion_forgery(rng, pure=True, max_tries=400):
    """a signature (R, S) with a small-order R that satisfies the verification equation under a mixed-order
    public key A = a·B + T:  [S]B − [k]A = −k·T, choose the message so that −k·T = R.  Strict verification
    (libsodium, RFC 8032 cofactorless with small-order checks) must reject it because R has small order."""
    torsion = [ed_decode(t) for t in ED_SMALL_ORDER]
    torsion = [t for t in torsion if t is not None and ed_compress(t) != ed_compress((0, 1, 1, 0))]
    a = int.from_bytes(bytes(rng.getrandbits(8) for _ in range(32)), "little") % ED_L
    T = rng.choice(torsion)
    A = _ed_add(_ed_mul(a, ED_G), T)
    Ab = ed_compress(A)
    for _ in range(max_tries):
        Rt = rng.choice(torsion)
        Rb = ed_compress(Rt)
        msg = bytes(rng.getrandbits(8) for _ in range(rng.randrange(1, 24)))
        dom = b"" if pure else DOM2
        m = msg if pure else sha512(msg)
        k = int.from_bytes(sha512(dom + Rb + Ab + m), "little") % ED_L
        if ed_compress(ed_neg(_ed_mul(k % 8, T))) == Rb:
            S = k * a % ED_L
            return Ab, msg, Rb + S.to_bytes(32, "little")
    return None


def poly_solve_last_block(r, prefix, T):
    """a final block (1..16 bytes) such that Poly1305's accumulator over prefix‖block is T mod p; None if impossible for this r"""
    if r == 0:
        return None
    h = poly1305_acc(r, prefix)
    c = (T * pow(r, -1, P1305) - h) % P1305
    bl = c.bit_length()
    if bl < 9 or (bl - 1) % 8 != 0:
        return None
    L = (bl - 1) // 8
    if not (1 <= L <= 16):
        return None
    return (c - (1 << (8 * L))).to_bytes(L, "little")


POLY_TARGETS = [0, 1, 2, 3, 4, P1305 - 1, P1305 - 2, P1305 - 3, (1 << 128) - 1, (1 << 128), (1 << 129), 5, 6]


def smallorder_pk_forgery(rng, pk_bytes, pure=True, max_tries=200):
    """for a public-key encoding that decodes (leniently) to a small-order point A: a signature (R, S) with
    [S]B − [k]A = R, i.e. one that a verifier without a working small-order check on the key accepts for this message."""
    y = int.from_bytes(pk_bytes, "little")
    sign = y >> 255
    y = (y & ((1 << 255) - 1)) % P25519
    x = _ed_recover_x(y, sign)
    if x is None:
        x = _ed_recover_x(y, 0)
        if x is None:
            return None
    A = (x, y, 1, x * y % P25519)
    for _ in range(max_tries):
        s = int.from_bytes(bytes(rng.getrandbits(8) for _ in range(32)), "little") % ED_L
        msg = bytes(rng.getrandbits(8) for _ in range(rng.randrange(0, 20)))
        t = rng.randrange(8)
        R = _ed_add(_ed_mul(s, ED_G), ed_neg(_ed_mul(t, A)))
        Rb = ed_compress(R)
        dom = b"" if pure else DOM2
        m = msg if pure else sha512(msg)
        k = int.from_bytes(sha512(dom + Rb + pk_bytes + m), "little") % ED_L
        if ed_compress(_ed_mul(k % 8, A)) == ed_compress(_ed_mul(t, A)):
            return msg, Rb + s.to_bytes(32, "little")
    return None


def poly_limb_corner_value(rng):
    """an accumulator value whose limbs (44/44/42 or 5×26 radix, the two layouts software Poly1305 uses) sit on carry corners"""
    if rng.random() < 0.75:
        widths = (44, 44, 42)
    else:
        widths = (26, 26, 26, 26, 26)
    v, off = 0, 0
    corner = rng.randrange(len(widths))
    for i, w in enumerate(widths):
        mx = (1 << w) - 1
        if i == corner or rng.random() < 0.3:
            limb = rng.choice([0, 0, 1, rng.randrange(128), mx, mx - 1, mx - rng.randrange(128)])
        else:
            limb = rng.getrandbits(w)
        v += limb << off
        off += w
    return v % P1305


def poly_solve_full_block(r, h, W):
    """a full 16-byte block m with (h + m + 2^128)·r ≡ W (mod p); None if that block value is not 16 bytes"""
    if r == 0:
        return None
    c = (W * pow(r, -1, P1305) - h) % P1305
    if not ((1 << 128) <= c < (1 << 129)):
        return None
    return (c - (1 << 128)).to_bytes(16, "little")


def poly_corner_stream(rng, r, nblocks, prefix=b""):
    """nblocks full blocks, each of which drives the accumulator onto a limb corner (so every block's carry chain, not
    only the final reduction, meets all-zero / all-one limbs)"""
    out = bytes(prefix)
    h = poly1305_acc(r, out)
    for _ in range(nblocks):
        for _try in range(64):
            W = poly_limb_corner_value(rng)
            b = poly_solve_full_block(r, h, W)
            if b is not None:
                out += b
                h = W
                break
        else:
            b = bytes(rng.getrandbits(8) for _ in range(16))
            out += b
            h = poly1305_acc(r, out)
    return out


def mixed_order_sig(rng, where="R", pure=True):
    """a signature made WITH the secret scalar in which an order-8 (or 4, 2) torsion point is added to the commitment R
    (where="R") or to the public key A (where="A").  Both points are of mixed order, so they pass every small-order check and have
    canonical encodings.  The cofactorless equation [S]B = R + [k]A (libsodium, RFC 8032 strict) rejects the R-variant always and the
    A-variant unless k·T = 0; the cofactored equation [8][S]B = [8]R + [8][k]A accepts both.
    Returns (pk, msg, sig, strict_accepts)."""
    torsion = [ed_decode(t) for t in ED_SMALL_ORDER]
    torsion = [t for t in torsion if t is not None and ed_compress(t) != ed_compress((0, 1, 1, 0))]
    a = int.from_bytes(bytes(rng.getrandbits(8) for _ in range(32)), "little") % ED_L
    r = int.from_bytes(bytes(rng.getrandbits(8) for _ in range(32)), "little") % ED_L
    T = rng.choice(torsion)
    A = _ed_mul(a, ED_G)
    R = _ed_mul(r, ED_G)
    if where == "R":
        R = _ed_add(R, T)
    else:
        A = _ed_add(A, T)
    Ab, Rb = ed_compress(A), ed_compress(R)
    msg = bytes(rng.getrandbits(8) for _ in range(rng.randrange(0, 30)))
    dom = b"" if pure else DOM2
    m = msg if pure else sha512(msg)
    k = int.from_bytes(sha512(dom + Rb + Ab + m), "little") % ED_L
    S = (r + k * a) % ED_L
    if where == "R":
        strict = False
    else:
        strict = ed_compress(_ed_mul(k % 8, T)) == ed_compress((0, 1, 1, 0))
    return Ab, msg, Rb + S.to_bytes(32, "little"), strict


def mont_ladder_raw(kn, un, bits=256):
    """unclamped Montgomery ladder: x-coordinate of [kn]·(point with x = un), any scalar"""
    x1, x2, z2, x3, z3, swap = un % P25519, 1, 0, un % P25519, 1, 0
    for t in range(bits - 1, -1, -1):
        kt = (kn >> t) & 1
        swap ^= kt
        if swap:
            x2, x3, z2, z3 = x3, x2, z3, z2
        swap = kt
        A = (x2 + z2) % P25519; AA = A * A % P25519
        B = (x2 - z2) % P25519; BB = B * B % P25519
        E = (AA - BB) % P25519
        C = (x3 + z3) % P25519; D = (x3 - z3) % P25519
        DA = D * A % P25519; CB = C * B % P25519
        x3 = (DA + CB) % P25519; x3 = x3 * x3 % P25519
        z3 = (DA - CB) % P25519; z3 = x1 * z3 * z3 % P25519
        x2 = AA * BB % P25519
        z2 = E * (AA + 121665 * E) % P25519
    if swap:
        x2, x3, z2, z3 = x3, x2, z3, z2
    return x2 * pow(z2, P25519 - 2, P25519) % P25519


def x25519_peer_for_output(sk, target_u):
    """a peer public key P with X25519(sk, P) = target_u (target in the prime-order subgroup): P = [s⁻¹ mod L]·T"""
    kk = bytearray(sk)
    kk[0] &= 248; kk[31] &= 127; kk[31] |= 64
    s = int.from_bytes(kk, "little")
    inv = pow(s % ED_L, -1, ED_L)
    return mont_ladder_raw(inv, target_u).to_bytes(32, "little")
