#!/usr/bin/env python3
"""Regenerates /verif/MANIFEST.json from the table below (kept in one place so it is always valid)."""
import json, os
V = os.path.dirname(os.path.dirname(os.path.abspath(__file__)))

LEVEL_NOTE = ("Trusted: Lean 4.33.0 kernel and the axioms propext, Classical.choice, Quot.sound (audited by #print axioms on every run; no sorry/admit/native_decide/bv_decide/own axioms); "
              "the hand-written Lean model is tied to /repo's current working tree only by the differential correspondence run (sampled, not a proof); "
              "Lean specs are validated against libsodium on the same inputs. ")

CLAIMED = {
 "C07": dict(
    text="Lean theorems: the limb-level model of poly1305_soft.rs equals the RFC 8439 specification for every key and message (incl. all carry corners) and never overflows a checked u64/u128 operation; little-endian increment equals +1 mod 256^n; the BLAKE2b/SipHash/HSalsa20/HChaCha20/HMAC models equal their specs. The models are tied to the code by a per-run differential run (impl vs model vs Lean spec vs libsodium) over every length 0..=L and constructed carry corners.",
    design="§7 C07", technique="Lean 4 proof of model = spec (limb arithmetic, buffering) + differential correspondence impl/model/spec/libsodium",
    note="dependency crates (sha2) are modelled by the Lean spec, not verified."),
}

PENDING = {}

def main():
    props = [json.loads(l) for l in open(os.path.join(V, "properties.jsonl"))]
    checks, na = [], []
    for p in props:
        i = p["id"]
        if i in CLAIMED:
            c = CLAIMED[i]
            checks.append({
                "property_id": i,
                "quick_cmd": "python3 check.py %s --tier quick" % i,
                "thorough_cmd": "python3 check.py %s --tier thorough" % i,
                "evidence_file": "/verif/evidence/%s.json" % i,
                "replay_cmd_template": "python3 check.py %s --replay {path}" % i,
                "engine": "lean4-proof+correspondence",
                "level_claimed": {"category": "proof", "text": c["text"], "design_ref": c["design"]},
                "level_note": LEVEL_NOTE + c.get("note", ""),
                "technique": c["technique"],
            })
        else:
            na.append({"property_id": i, "reason": PENDING.get(i, "check not built yet in this round (work in progress; see DESIGN.md §9 order of work) — not a claim that the technique cannot apply")})
    m = {
        "version": 1,
        "setup_cmd": "bash /verif/setup.sh",
        "hooks": {
            "guard": "cargo feature dryoc_verif",
            "enable": "cargo build --features dryoc_verif (the harness crate /verif/harness enables it through its own feature `hooks`)",
            "baseline_off_cmd": "cd /repo && cargo test --workspace --no-fail-fast --offline",
            "source_commits": ["7884f57"],
            "add_only": True,
        },
        "engines": [
            {"name": "lean4-proof+correspondence", "path": "/verif/lean, /verif/harness, /verif/gen, /verif/check.py",
             "serves_properties": sorted(CLAIMED),
             "kind_free_text": "Lean 4 theorems about hand-written models/specs (lake build + #print axioms audit) + differential correspondence run of the Rust implementation against the Lean model driver, the Lean spec and libsodium over a line protocol"},
        ],
        "checks": checks,
        "not_applicable": na,
        "notes": "See DESIGN.md. Every check first rebuilds its Lean property module (proof obligations) and the Rust runner from /repo's working tree, then runs the correspondence/oracle comparison.",
    }
    json.dump(m, open(os.path.join(V, "MANIFEST.json"), "w"), indent=1)

if __name__ == "__main__":
    main()
