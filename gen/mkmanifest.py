#!/usr/bin/env python3
"""Regenerates /verif/MANIFEST.json from the table below (kept in one place so it is always valid)."""
import json, os
V = os.path.dirname(os.path.dirname(os.path.abspath(__file__)))

LEVEL_NOTE = ("Trusted: Lean 4.33.0 kernel and the axioms propext, Classical.choice, Quot.sound (audited by #print axioms on every run; no sorry/admit/native_decide/bv_decide/own axioms); "
              "the hand-written Lean model is tied to /repo's current working tree only by the differential correspondence run (sampled, not a proof); "
              "Lean specs are validated against libsodium on the same inputs. ")

CLAIMED = {
 "C01": dict(
    text="Lean theorems over a buffer-level model of every secretbox/box/sealed-box entry point (classic + object API), parametric in XSalsa20/X25519/HSalsa20/Poly1305: open∘seal = id for every pairing, all API forms produce one wire format, model = NaCl spec. The model is tied to the code by a per-run differential run impl vs model vs Lean spec vs libsodium vs an independent python NaCl reference over every message length and every API form/container. After review: the instance the driver runs (boxPrims, Poly1305 limb model) is proved equal to Spec.NaCl for every seal and open form (model_eq_spec_*_boxPrims), key-stream prefix law and MAC-key independence.",
    design="§7 C01", technique="Lean 4 proof (round-trip, form agreement, model = NaCl spec) + differential correspondence impl/model/spec/libsodium",
    note="XSalsa20, X25519, HSalsa20 are parameters of the theorems (dependency crates; differential evidence only)."),
 "C02": dict(
    text="Lean theorems: complete accept/reject decision procedure of every opening form (ok ⇔ length ≥ overhead ∧ recomputed MAC = presented tag), unconditional rejection of every tag change and of every short input; plus an exhaustive single-fault enumeration (every bit of tag/body/nonce/key/epk/AD, every truncation, extensions) evaluated on the implementation, the Lean model (real MAC) and libsodium. Acceptance of any changed body / length / nonce / key is reduced to a Poly1305 collision under one key (body_tamper_accept_imp_collision, accept_imp_collision_boxPrims, key_nonce_flip_accept_imp_tag_eq).",
    design="§7 C02", technique="Lean 4 proof of the decision procedure + exhaustive single-fault differential enumeration",
    note="That distinct MAC inputs give distinct Poly1305 tags is cryptographic, not a theorem; it is checked concretely per enumerated fault."),
 "C03": dict(
    text="Lean theorems over the secretstream state machine (any state incl. counter 0xffffffff, parametric in ChaCha20/HChaCha20/Poly1305): pull∘push returns message, tag and the same next state through all rekey branches; a rejected pull leaves state/buffer/tag untouched; little-endian counter increment. Tied to the code by random histories (push/rekey/in-order/replay/skip/swap/wrong-AD/bit-flip/foreign) compared three-way impl/model/libsodium incl. raw states via hook H1. Acceptance of wrong-AD / modified / replayed / skipped / swapped ciphertexts is reduced to MAC equations (wrong_ad_accept_imp_collision, accept_at_state_imp_mac_eq), counters are pairwise distinct within an epoch (counters_distinct_within_epoch), rekeying stated exactly, MESSAGEBYTES_MAX guards modelled.",
    design="§7 C03", technique="Lean 4 proof (state-machine invariants, induction over histories) + differential history correspondence impl/model/libsodium",
    note="ChaCha20/HChaCha20 are parameters; rejection of out-of-position ciphertexts rests on MAC collision-freeness (evaluated concretely)."),
 "C04": dict(
    text="Lean theorems: the models of the attacker-facing functions (every panicking Rust operation modelled as an explicit panic outcome) never reach panic for any byte string; tied to the code by a sweep of every length 0..=2·overhead+64 × content classes under catch_unwind in a dev-profile build with a counting allocator. Code-shaped models with an explicit panic branch for every slice, checked subtraction, split_at, unwrap, copy_from_slice and key-stream seek (pullRaw, signOpenRaw, fromBytesRaw, parseRaw…) are proved equal to the total models and never to panic; guard-removed twins kept as counter-models (pullRawOld_short_panics, objPullOld_panics_iff); hmacVerify / onetimeauthVerify never panic; strVerify never panics with the project's Argon2 model under the explicit memory bound.",
    design="§7 C04", technique="Lean 4 proof of never-panics on the Outcome-model + differential totality sweep",
    note="panics inside dependency crates are outside the model; only the sweep sees them."),
 "C05": dict(
    text="Lean theorems about dryoc's own part of X25519/kx (the field arithmetic is dalek's): the clamp equals RFC 7748's, is idempotent and yields a scalar in [2^254, 2^255) divisible by 8; scalarmult feeds the clamped scalar ITSELF to the ladder, hence equals RFC 7748 X25519 (scalarmult_eq_x25519), while the pre-repair variant that reduces mod L differs on every clamped scalar (clamped_scalar_ge_L) and on concrete low-order/mixed points (kernel-checked witnesses); ladder k 0 = 0 for every k; key exchange refuses an all-zero shared secret (iff), never panics, and client rx/tx = server tx/rx given DH commutativity (hypothesis). Tied to the code by impl vs Lean RFC 7748 ladder vs libsodium on random pairs (≈94% off-subgroup), the complete low-order/non-canonical/high-bit table × scalar bit patterns, RFC vectors incl. the 1000-iteration vector, and honest kx pairs with the mirror check. The ladder sees u only mod p and ignores bit 255 (ladder_mod_p, scalarmult_high_bit); every small-order point (incl. order 8, proved in ZMod p) gives zero for every clamped scalar, so kx refuses the whole blacklist for all secret keys; the Edwards-base-table shape of scalarmult_base is a named unproved hypothesis (BaseEdwardsOK).",
    design="§7 C05", technique="Lean 4 proof (clamp, key schedule, zero refusal, mirror under DH-commutativity hypothesis) + differential correspondence impl/RFC-7748 Lean spec/libsodium",
    note="curve25519-dalek's field/group arithmetic is modelled by the Lean ladder, not verified; DH commutativity is a hypothesis."),
 "C06": dict(
    text="Lean theorems over dryoc's signing/verification sequence (hashing, reduction mod L, encoding; curve ops from the Lean RFC 8032 spec): the model's signature equals RFC 8032 sign for pure and pre-hashed mode and any chunking (sign_model_eq_spec, signPh_model_eq_spec), layout sig‖m and signOpen ok-iff, S ≥ L (every S+kL) rejected for every input, small-order or undecodable R/A rejected, full acceptance condition (verifyDetached_true_iff), domain separation of the two modes, verify∘sign over an abstract commutative group (the curve instantiating it is a hypothesis), model-vs-libsodium-strict agreement under explicit canonicity hypotheses, RFC 8032 TEST 1 kernel-checked through the model. Tied to the code by impl vs Lean spec vs libsodium on every message length, every single-bit mutation, the S+kL family in both modes, all small-order/non-canonical encodings, constructed torsion forgeries (mixed-order keys) and mode cross-overs. Small-order blacklist × sign bit rejected as a theorem (blacklist_R_rejected / _A_rejected); seeded key pair = RFC 8032 under the named curve facts.",
    design="§7 C06", technique="Lean 4 proof (signature layout, determinism, canonical-S rejection) + differential correspondence impl/RFC-8032 Lean spec/libsodium",
    note="dalek Edwards arithmetic and sha2 are modelled by Lean specs, not verified; verify∘sign needs the group law (abstract-group theorem)."),
 "C07": dict(
    text="Lean theorems: the limb-level model of poly1305_soft.rs equals RFC 8439 for every key and message (all carry corners) and never overflows a checked u64/u128 operation; the model of blake2b_soft.rs (code-shaped compress = RFC 7693 F, parameter block, keyed init, buffering, finalize) equals RFC 7693 for every digest/key length; code-shaped HSalsa20 (16 named words, 32 statements × 10) = Salsa20 doubleround spec, HChaCha20 = RFC quarter-round spec, SipHash-2-4 (chunks_exact loop + remainder + len<<56) = the paper's word parsing for every length, HMAC-SHA-512-256 construction = RFC 2104 spec (SHA-512 a parameter), verify ok iff tag = MAC, little-endian increment = +1 mod 256^n. The arithmetic kernels themselves (load_u64_le, Poly1305 new/blocks/finalize tail, BLAKE2b tables + compress + counter, siphash24, crypto_core_hchacha20/hsalsa20) are MACHINE-TRANSLATED from /repo/src by tools/rs2lean.py on every run and proved equal to the model for all inputs (translated_* theorems), so an edited constant/operator/carry breaks a proof obligation. Tied to the code additionally by impl vs model vs Lean spec vs libsodium over every length 0..=L, every BLAKE2b digest/key length and constructed Poly1305 carry corners. Verify functions modelled (poly1305_verify_ok_iff, poly1305_object_verify_cases); whole-run overflow freedom of Poly1305 (poly1305_run_checked); BLAKE2b update slice indices in range; generichash_err_iff.",
    design="§7 C07", technique="Lean 4 proof of model = spec (limb arithmetic, carries, overflow freedom) + kernels regenerated from source by a translator and proved equal to the model + differential correspondence impl/model/spec/libsodium",
    note="dependency crates (sha2) are modelled by the Lean spec, not verified."),
 "C08": dict(
    text="Lean theorems: Poly1305 — any list of update chunks (empty, straddling, exactly filling) gives the one-shot result; BLAKE2b — init; update c1..cn; finalize depends only on the concatenation FOR ANY COMPRESSION FUNCTION (so for the software and the SIMD backend), the held-back buffer never exceeds one block (dead finalize branch), incremental generichash with salt/personal = RFC 7693; HMAC incremental = one-shot (sha2's own buffering is not modelled). Tied to the code and extended to SHA-512 and incremental signing by exhaustive 2-way/3-way split enumeration and random k-way partitions, impl incremental vs libsodium one-shot vs Lean spec vs Lean buffering model.",
    design="§7 C08", technique="Lean 4 proof (induction over the chunk list with a buffering invariant) + exhaustive split enumeration",
    note="sha2's buffering (SHA-512/HMAC/incremental signing) is not modelled; differential only."),
 "C09": dict(
    text="Lean theorems about dryoc's Argon2 glue (parameter validation iff, the (opslimit, memlimit) → (t, m) conversion, instance arithmetic m′ = 4p⌊m/4p⌋, index_alpha never under/overflows and equals the RFC 9106 §3.4 mapping, prev/curr offsets stay in the lane, addressing mode, H′ chunk arithmetic) and base64; fill_memory of the model = the RFC 9106 spec for every valid parameter set. fblamka, index_alpha, blake2_round_nomsg and the index tuples of fill_block are MACHINE-TRANSLATED from argon2.rs by tools/rs2lean.py on every run and proved equal to the model (translated_* theorems). Tied to the code additionally by impl vs model vs Lean RFC 9106 spec vs libsodium over output lengths 16..1100, password lengths, t=1..6, memory sizes incl. non-multiples of 4 KiB, salts 8..64, rejected points. cryptoPwhash never panics within the documented bounds and is total (ok = spec value, err otherwise); object verify modelled (objVerify_iff_spec); convert_costs, the range guards (and that they precede the conversion) and the memory geometry are machine-translated and proved equal to the model.",
    design="§7 C09", technique="Lean 4 proof (validation, index/offset arithmetic, H′ structure, model = RFC 9106) + kernels regenerated from source by a translator and proved equal to the model + differential correspondence impl/model/RFC-9106 Lean spec/libsodium",
    note="the loop nest around the kernels (fill_segment, generate_addresses) is hand-modelled and tied by the correspondence run; holds under 7·segment_length < 2^32+3."),
 "C10": dict(
    text="Lean theorems over the string model (encoder, field-by-field parser as written, needs-rehash, verify): decimal and base64 round trips, the encoder never emits a separator inside a field, parse∘encode = ok with exactly the encoded fields for both algorithms and ANY non-empty salt/hash (incl. base64 text starting with 'argon2'), reencode∘encode = id, encode is injective (self-describing), needs_rehash = false iff both costs match (KiB truncation included), strVerify ok iff Argon2 reproduces the stored hash, parser/needs-rehash/verify never panic and parse-ok implies every later unwrap succeeds. Tied to the code by strings produced by dryoc (salt fixed through hook H3; object API with salts 8..64 and hashes 16..128) verified by libsodium and vice versa, parse→re-encode, needs-rehash grid. The producer crypto_pwhash_str is modelled and run by the driver (pwhashStr_self_describing, pwhashStr_verify_iff, pwhashStr_needs_rehash); reencode through the code's cost round trip; strVerify never panics with the Argon2 model under the memory bound.",
    design="§7 C10", technique="Lean 4 proof (round-trip theorems for encoder/parser, needs-rehash iff) + differential correspondence impl/model/libsodium",
    note="base64 crate and str::parse::<u32> are modelled (Spec.Base64, parseU32), Argon2 is the Lean RFC spec."),
 "C11": dict(
    text="Lean theorems over a data-flow model of every randomised entry point: each consumes exactly its documented number of bytes from the current position of the entropy stream (no constant, no reuse; consecutive operations use disjoint parts), and the random component of its result is that draw (or contains it), so distinct draws give distinct results. Tied to the code by hooked runs (hook H3: result and sizes of draws compared with the model, incl. degenerate all-zero entropy) and a statistical oracle on the OS generator (no repeat, no all-zero, no constant byte position over hundreds of calls; false-alarm < 2^-100). Nightly generators in the table; freshness for derived kinds; the naive freshness of the sealed-box ephemeral key is proved FALSE (X25519 is not injective on clamped scalars) and replaced by the true relative statement; n-call disjointness.",
    design="§7 C11", technique="Lean 4 proof (entropy data-flow model: draws_n, disjointness, component-is-draw) + hooked differential run + statistical oracle",
    note="the OS generator's quality is trusted."),
 "C12": dict(
    text="Lean theorems: derive rejects exactly the lengths outside 16..=64 and never panics; the subkey is BLAKE2b with digest length = requested length, key = master key, salt = le64(id)‖0^8, personal = ctx‖0^8 (kdf_eq_spec: libsodium's construction); the id enters modulo 2^64 only; (length, id, context) ↦ parameter block is injective (param_block_injective) so distinct inputs give distinct initial chaining values. Tied to the code by impl vs model vs Lean BLAKE2b spec vs libsodium on all 49 lengths × boundary ids, rejected lengths, pairwise distinctness incl. the prefix relation. kdf_impl_eq_spec through dryoc's BLAKE2b model; initial-state injectivity; the digest-length argument and key/salt/personal order are machine-extracted from the source.",
    design="§7 C12", technique="Lean 4 proof (range check iff, parameter-block injectivity) + differential correspondence impl/model/spec/libsodium",
    note="distinct digests for distinct parameter blocks is collision resistance, checked per batch only."),
 "C13": dict(
    text="Lean theorems: seeded key generation in the model is libsodium's construction for seeds of any length (box: SHA-512(seed)[0..32] then base-point multiple, SHA-512 output length proved; kx: BLAKE2b-32; sign: seed‖A), clampHash = RFC clamp, the converted secret key is exactly the signing scalar and equals the spec's conversion, the converted pair is consistent given that the birational map commutes with scalar multiplication (explicit hypothesis MapCommutes, kernel-checked on instances). Tied to the code by impl vs model vs Lean spec vs libsodium on seeds of every length 0..=128, every clamp-bit pattern, password-derived pairs (incl. non-default Config lengths) and the conversion-consistency check on every generated pair. pkToCurve agrees with libsodium wherever libsodium accepts (pkToCurve_of_spec) and errs iff the point does not decode; models for from_secret_key, derive_keypair and the in-place seed forms (independent of prior buffer contents).",
    design="§7 C13", technique="Lean 4 proof (constructions, clamp facts) + differential correspondence impl/model/spec/libsodium",
    note="the Ed→Montgomery map commuting with scalar multiplication is a hypothesis (group law not in Mathlib)."),
 "C14": dict(
    text="Lean theorems over a kernel/allocator/region model of protected.rs (symbolic page size): the mprotect call of every wrapper covers exactly the pages holding data for every length (and the len−1 variant misses the last page iff len ≡ 1 mod P); an invariant — data pages carry exactly the rights of the type state, are locked iff the type says Locked, both guard pages are inaccessible, live regions are page-disjoint, contents unchanged by transitions — holds after every operation sequence (induction over arbitrary histories); after the last drop nothing is locked or has altered rights. Tied to the code by sequences over the type-state graph observed through /proc/self/maps, VmLck, checksums and forked fault probes. Probe outcomes follow from the invariant (ro_write_faults, na_any_access_faults, rw_access_ok, guard_probes_fault), guard-page distance, contents through clone/resize; allocator arithmetic and syscall arguments machine-translated.",
    design="§7 C14", technique="Lean 4 proof (page arithmetic, invariant by induction over operation histories) + differential correspondence impl/model through /proc and fault probes",
    note="Linux mprotect/mlock semantics, glibc, /proc reporting are modelled, not verified; nightly build only."),
 "C15": dict(
    text="Lean theorem over the allocator/Vec/region model: for every operation sequence (create, fill, resize up/down, clone, lock, unlock, protect, drop) every release event reaches the system allocator with all layout.size() bytes zero — an invariant of deallocate, independent of the Vec growth policy; the unwiped variant is shown to violate it. Tied to the code through hook H2 (address, size, non-zero count at every release). The release trace is complete (objDrop_releases, grow_releases_old, finish_releases_all) and the wipe runs on writable pages.",
    design="§7 C15", technique="Lean 4 proof (release-trace invariant) + differential correspondence through the allocator release observer",
    note="hook H2 is trusted to report what is freed; nightly build only."),
 "C18": dict(
    text="Lean theorem simd_compress_eq: the SIMD compression function — a Lean interpreter over swizzle/rotation tables REGENERATED FROM blake2b_simd.rs by tools/simd_tables.py on every run — equals the software compression function for every chaining value, counter, flags and block (schedule_eq_sigma by decide over the regenerated tables, lane-wise G, permute/unpermute), lifted to whole hashes (simd_hashChunks_eq) through the buffering theorems that hold for any compression function; hence equal to RFC 7693. Tied to the code by answering the C07/C08/C09/C12/C05/C06/C13 corpora with three builds (stable default, nightly, nightly+simd_backend) and diffing the transcripts, plus Vec/stack/heap container groups. Per-call SIMD laws, simd_longhash_eq, simd_kdf_eq, simd_kx_eq, simd_seal_nonce_eq; evaluated RFC 7693 vectors through the SIMD model.",
    design="§7 C18, §10", technique="translator (Rust source → Lean tables) + Lean 4 proof of SIMD = software compression + three-build transcript diff",
    note="the translator is trusted to transcribe the swizzle tables (it fails loudly on unexpected shapes); sha2/asm and dalek's SIMD backends are covered by the transcript diff only."),
 "C19": dict(
    text="Lean theorems over the protected-memory model with an arbitrary lock-refusal oracle: every Result-returning constructor/transition yields ok or err, never panic; a refused lock leaves every other region's pages untouched and the consumed region wiped and unlocked; drop still restores everything. Tied to the code by re-running the C14 sequences with the k-th and all later mlock requests refused by an LD_PRELOAD shim. lock_err_cleans_up from the error outcome, err_create_no_residue, failOracle_spec, E14 counter-model.",
    design="§7 C19", technique="Lean 4 proof (no-panic and cleanup under any refusal oracle) + fault-injection correspondence (LD_PRELOAD mlock shim)",
    note="non-Result operations (Clone, resize of a locked region, Default) may panic when locking is refused: outside the property's statement."),
 "C16": dict(
    text="Lean theorems over the serde data-model view of bytes_serde.rs and the from/to-bytes layer: fixed-length decoding succeeds iff the encoding holds exactly n bytes and then yields exactly those bytes (both encodings of a byte string: element sequence and byte string) — never padded, never truncated, never a panic; resizable containers decode to exactly the payload; de∘ser = id; to_bytes layouts (tag‖c, epk‖tag‖c, sig‖m) and from_bytes∘to_bytes = id. Tied to the code by decoding stack/locked containers from every element count 0..=2n in JSON-array, JSON-string and bincode encodings, heap containers for payload lengths incl. page boundaries, and JSON/bincode round trips of every serde object followed by decrypt/verify. Failure halves (fromBytes_err_iff, deFixed_err_iff), still-decrypts / still-verifies after the round trip, field-wise struct round trip, pre-fix visitor counter-models.",
    design="§7 C16", technique="Lean 4 proof (strict fixed-length decoding iff, round trips, layouts) + differential correspondence impl/model over both serde formats",
    note="serde_json, bincode and serde_derive are trusted to hand the visitors what the model assumes; nightly build for heap/locked containers."),
 "C20": dict(
    text="Lean theorems over the type-state table `permits` (which trait impls protected.rs/dryocstream.rs offer in each state): everything permitted in a state is allowed by the page rights that state guarantees (permits_sound), mutable views only in ReadWrite, no view in NoAccess, no-access only when Unlocked, nothing after a consuming transition, push/pull only on the matching stream mode, and well_typed_no_fault: a program whose every step is permitted never performs an access its page rights forbid (induction over programs). That rustc accepts exactly this table is measured exhaustively on every run: one program per cell (150) compiled against the current tree, permitted ones also run. The table is tied to C14's kernel model: marker_is_page_right, permitted_access_no_segv, forbidden_*_segv, transitions_follow_table, well_typed_no_segv.",
    design="§7 C20", technique="Lean 4 proof over the permits table + exhaustive compile farm (rustc verdict per cell vs the Lean table)",
    note="rustc's trait resolution/borrow checking is the decider and is trusted; the (NoAccess, Locked) state is compile-only."),
 "C17": dict(
    text="Lean theorem over the buffer-level models: whenever an opening function (box/secretbox/sealed/afternm, detached and in-place, stream pull) returns err, the caller's message buffer and tag variable equal their initial values — for every input, not only single corruptions. Tied to the code by the exhaustive single-fault family with sentinel-filled buffers. Pre-fix counter-models (old_open_releases, old_pull_releases), object pull keeps the state on error through the code-shaped path, afternm forms.",
    design="§7 C17", technique="Lean 4 proof (failed open leaves outputs untouched) + exhaustive single-fault differential enumeration with sentinel buffers",
    note=""),
}

PENDING = {}

def main():
    props = [json.loads(l) for l in open(os.path.join(V, "properties.jsonl"))]
    checks, na = [], []
    for p in props:
        i = p["id"]
        if i in CLAIMED:
            c = CLAIMED[i]
            checks.append({
                "property_id": i,
                "quick_cmd": "python3 check.py %s --tier quick" % i,
                "thorough_cmd": "python3 check.py %s --tier thorough" % i,
                "evidence_file": "/verif/evidence/%s.json" % i,
                "replay_cmd_template": "python3 check.py %s --replay {path}" % i,
                "engine": "lean4-proof+correspondence",
                "level_claimed": {"category": "proof", "text": c["text"], "design_ref": c["design"]},
                "level_note": LEVEL_NOTE + c.get("note", ""),
                "technique": c["technique"],
            })
        else:
            na.append({"property_id": i, "reason": PENDING.get(i, "check not built yet in this round (work in progress; see DESIGN.md §9 order of work) — not a claim that the technique cannot apply")})
    m = {
        "version": 1,
        "setup_cmd": "bash /verif/setup.sh",
        "hooks": {
            "guard": "cargo feature dryoc_verif",
            "enable": "cargo build --features dryoc_verif (the harness crate /verif/harness enables it through its own feature `hooks`)",
            "baseline_off_cmd": "cd /repo && cargo test --workspace --no-fail-fast --offline",
            "source_commits": ["7884f57"],
            "add_only": True,
        },
        "engines": [
            {"name": "lean4-proof+correspondence", "path": "/verif/lean, /verif/harness, /verif/gen, /verif/check.py",
             "serves_properties": sorted(CLAIMED),
             "kind_free_text": "Lean 4 theorems about hand-written models/specs (lake build + #print axioms audit) + differential correspondence run of the Rust implementation against the Lean model driver, the Lean spec and libsodium over a line protocol"},
        ],
        "checks": checks,
        "not_applicable": na,
        "notes": "See DESIGN.md. Every check first rebuilds its Lean property module (proof obligations) and the Rust runner from /repo's working tree, then runs the correspondence/oracle comparison.",
    }
    json.dump(m, open(os.path.join(V, "MANIFEST.json"), "w"), indent=1)

if __name__ == "__main__":
    main()
