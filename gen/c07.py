"""C07 — hash, MAC and core primitives equal their specifications (DESIGN.md §7 C07)."""
import random
from common import *
import refs

RUNNER = "stable"
TRUSTED = [
    "Lean 4.33.0 kernel; axioms ⊆ {propext, Classical.choice, Quot.sound}",
    "tools/rs2lean.py (Rust → Lean translator for the integer kernels) is trusted to transcribe the subset it accepts; it rejects anything else; its output is compiled by Lean and each equivalence proof was mutation-checked",
    "Lean specs (Spec/Poly1305, Blake2b, Sha512, Hmac, SipHash, Salsa20, ChaCha20) say what the RFCs say; validated against libsodium on the same corpus every run",
    "correspondence check: python generator/differ, Rust runner, Lean driver",
    "sha2 crate (SHA-512) is modelled by the Lean spec, not verified",
]


def flips(mac):
    out = []
    for i in range(len(mac) * 8):
        m = bytearray(mac)
        m[i // 8] ^= 1 << (i % 8)
        out.append(bytes(m))
    return out


def multi_flips(mac, rng):
    """forgeries that differ from the right authenticator in two or more places: equal XOR deltas at every pair of byte
    positions (they cancel in a folded / word-wise comparison), swapped words, a shifted copy, and random tags"""
    out = []
    n = len(mac)
    for i in range(n):
        for j in range(i + 1, n):
            for d in (0x01, 0x80):
                m = bytearray(mac); m[i] ^= d; m[j] ^= d
                out.append(bytes(m))
    for w in (4, 8):
        m = bytearray(mac)
        for i in range(0, n, w):
            m[i] ^= 0x55
        out.append(bytes(m))
        out.append(mac[w:] + mac[:w])
    out.append(mac[1:] + mac[:1])
    out.append(bytes(b ^ 0xff for b in mac))
    out += [rbytes(rng, n) for _ in range(8)]
    return [m for m in out if m != mac]


def poly_corner_cases(rng, n):
    """messages whose accumulator lands on chosen residues: solve c = T·r⁻¹ − h (mod p) for the last block."""
    cases = []
    targets = [0, 1, 2, 3, 4, refs.P1305 - 1, refs.P1305 - 2, (1 << 128) - 1, (1 << 128), (1 << 129), 5, 6]
    tries = 0
    while len(cases) < n and tries < 200 * n:
        tries += 1
        key = bytearray(rbytes(rng, 32))
        kind = rng.randrange(4)
        if kind == 0:
            key[:16] = b"\xff" * 16          # r at clamped maximum
        if kind == 1:
            key[16:] = b"\xff" * 16          # s = 2^128-1
        r = int.from_bytes(key[:16], "little") & refs.CLAMP
        if r == 0:
            continue
        prefix = rbytes(rng, 16 * rng.randrange(0, 3))
        if rng.randrange(3) == 0:
            prefix = b"\xff" * len(prefix)
        h = refs.poly1305_acc(r, prefix)
        T = rng.choice(targets)
        c = (T * pow(r, -1, refs.P1305) - h) % refs.P1305
        # legal block value: 2^(8L) <= c < 2^(8L+1) for some L in 1..16
        L = (c.bit_length() - 1) // 8 if c.bit_length() >= 9 and (c.bit_length() - 1) % 8 == 0 else None
        if L is None or not (1 <= L <= 16):
            continue
        blk = (c - (1 << (8 * L))).to_bytes(L, "little")
        msg = prefix + blk
        assert refs.poly1305_acc(r, msg) == T % refs.P1305
        cases.append(Case("poly1305 %s %s" % (hx(bytes(key)), hx(msg)), cls="poly1305/corner-acc=%s" % (
            "p-%d" % (refs.P1305 - T) if T > (1 << 129) + 5 else ("2^%d%s" % (T.bit_length() - 1, "" if T & (T - 1) == 0 else "-1") if T > 6 else str(T)))))
    # every block (not only the last) landing on a limb corner: carries inside the per-block reduction
    for i in range(n):
        key = bytearray(rbytes(rng, 32))
        if i % 5 == 0:
            key[:16] = b"\xff" * 16
        r = int.from_bytes(key[:16], "little") & refs.CLAMP
        if r == 0:
            continue
        msg = refs.poly_corner_stream(rng, r, rng.randrange(1, 6), prefix=rbytes(rng, 16 * rng.randrange(0, 2)))
        msg += rbytes(rng, rng.choice([0, 0, 1, 15, 16]))
        cases.append(Case("poly1305 %s %s" % (hx(bytes(key)), hx(msg)), cls="poly1305/limb-corner-blocks"))
    return cases


def gen(rng, tier):
    cs = corpus_cases("C07")
    L = 300 if tier == "quick" else 1100
    extra = [512, 1023, 1024, 1025, 1100] if tier == "quick" else [2048, 4095, 4096, 4097, 8192]
    lens = list(range(0, L + 1)) + extra
    # ---------------- Poly1305 one-shot, every length; contents random / 0xff / zero
    for n in lens:
        key = rbytes(rng, 32)
        style = n % 4
        msg = rbytes(rng, n) if style < 2 else (b"\xff" * n if style == 2 else b"\x00" * n)
        if n % 7 == 3:
            key = b"\xff" * 32
        if n % 7 == 5:
            key = rbytes(rng, 16) + b"\xff" * 16
        cs.append(Case("poly1305 %s %s" % (hx(key), hx(msg)), cls="poly1305/len%%16=%d" % (n % 16)))
    cs += poly_corner_cases(rng, 150 if tier == "quick" else 2000)
    # verify: right mac accepted, every single-bit flip rejected
    for n in ([0, 1, 15, 16, 17, 33, 64] if tier == "quick" else list(range(0, 70))):
        key, msg = rbytes(rng, 32), rbytes(rng, n)
        mac = refs.poly1305(key, msg)
        cs.append(Case("poly1305_verify %s %s %s" % (hx(key), hx(msg), hx(mac)), cls="poly1305_verify/good", expect="ok"))
        for f in flips(mac):
            cs.append(Case("poly1305_verify %s %s %s" % (hx(key), hx(msg), hx(f)), cls="poly1305_verify/flip", expect="err"))
        if n in (0, 17, 33):
            for f in multi_flips(mac, rng):
                cs.append(Case("poly1305_verify %s %s %s" % (hx(key), hx(msg), hx(f)), cls="poly1305_verify/multi-flip", expect="err"))
    # degenerate but CORRECT authenticators: the all-zero key (r = s = 0: every message has the all-zero tag — RFC 8439 A.3 #1), r = 0
    # with any s, and keys whose pad s is chosen as −h so that the correct tag is sixteen zero / 0xff bytes: accepted, every flip rejected
    degenerate = [(b"\x00" * 32, rbytes(rng, 33)), (b"\x00" * 32, b""), (b"\x00" * 16 + rbytes(rng, 16), rbytes(rng, 20))]
    for want in (0, (1 << 128) - 1, 1, 1 << 127):
        for n in (1, 16, 17, 40):
            k = bytearray(rbytes(rng, 32)); msg = rbytes(rng, n)
            k[16:] = b"\x00" * 16
            h = int.from_bytes(refs.poly1305(bytes(k), msg), "little")
            k[16:] = ((want - h) % (1 << 128)).to_bytes(16, "little")
            assert int.from_bytes(refs.poly1305(bytes(k), msg), "little") == want
            degenerate.append((bytes(k), msg))
    for key, msg in degenerate:
        mac = refs.poly1305(key, msg)
        cut = len(msg) // 2
        cs.append(Case("poly1305 %s %s" % (hx(key), hx(msg)), cls="poly1305/degenerate-tag"))
        cs.append(Case("poly1305_verify %s %s %s" % (hx(key), hx(msg), hx(mac)), cls="poly1305_verify/degenerate-good", expect="ok", meta={"why": "the correct authenticator %s was refused" % hx(mac)}))
        cs.append(Case("poly1305_objverify %s %s %s %s" % (hx(key), hx(mac), hx(msg[:cut]), hx(msg[cut:])), cls="poly1305_objverify/degenerate-good", expect="ok"))
        for f in flips(mac)[::5]:
            cs.append(Case("poly1305_verify %s %s %s" % (hx(key), hx(msg), hx(f)), cls="poly1305_verify/degenerate-flip", expect="err"))
    # ---------------- the streaming forms of the MACs are API forms too: every 2-way split of lengths 0..=48, block-aligned 3-way splits
    for op in ("poly1305_inc", "poly1305_obj", "auth_inc", "auth_obj"):
        for n in range(0, 49 if tier == "quick" else 130):
            key, msg = rbytes(rng, 32), rbytes(rng, n)
            for i in range(0, n + 1):
                cs.append(Case("%s %s %s %s" % (op, hx(key), hx(msg[:i]), hx(msg[i:])), cls=op + "/2-way"))
        for n in (32, 48, 64, 127, 128, 129):
            key, msg = rbytes(rng, 32), rbytes(rng, n)
            for _ in range(12):
                i = rng.randrange(0, n + 1); j = rng.randrange(i, n + 1)
                j = min(n, ((j + 15) // 16) * 16) if rng.random() < 0.5 else j
                cs.append(Case("%s %s %s %s %s" % (op, hx(key), hx(msg[:i]), hx(msg[i:j]), hx(msg[j:])), cls=op + "/3-way"))
    # ---------------- the streaming object verifier with a variable-length tag container: exactly the correct 16 bytes are
    # accepted (a longer Vec is viewed through its first 16 bytes by the documented ByteArray<16> contract, a shorter one is a
    # caller-contract panic in the unchanged code) — a proper prefix or any other value must never be accepted
    for n in (0, 1, 16, 17, 40):
        key, msg = rbytes(rng, 32), rbytes(rng, n)
        mac = refs.poly1305(key, msg)
        cut = n // 2
        body = "%s %s" % (hx(msg[:cut]), hx(msg[cut:]))
        cs.append(Case("poly1305_objverify %s %s %s" % (hx(key), hx(mac), body), cls="poly1305_objverify/good", expect="ok"))
        cs.append(Case("poly1305_objverify %s %s %s" % (hx(key), hx(mac + b"\x00"), body), cls="poly1305_objverify/longer-prefix-ok", expect="ok", meta={"why": "documented prefix view of a longer Vec"}))
        for k in range(0, 16):
            cs.append(Case("poly1305_objverify %s %s %s" % (hx(key), hx(mac[:k]), body), cls="poly1305_objverify/short-prefix", expect=(lambda a: not a.startswith("ok")),
                           meta={"why": "a %d-byte prefix of the correct tag was accepted" % k, "panic_ok": True}))
        for f in flips(mac)[::9]:
            cs.append(Case("poly1305_objverify %s %s %s" % (hx(key), hx(f), body), cls="poly1305_objverify/flip", expect="err"))
            cs.append(Case("poly1305_objverify %s %s %s" % (hx(key), hx(f + b"\x07\x07"), body), cls="poly1305_objverify/flip-long", expect="err"))
    # ---------------- increment: every short length, and longer buffers with all-zero / all-0xff 8-byte words in every position
    for n in (16, 17, 23, 24, 25, 32, 33, 40):
        for pat in range(1 << min(5, n // 8)):
            v = bytearray(rbytes(rng, n))
            for w in range(n // 8):
                if pat >> w & 1:
                    v[8 * w:8 * w + 8] = b"\x00" * 8
            cs.append(Case("increment %s" % hx(bytes(v)), cls="increment/zero-words"))
            v2 = bytearray(v)
            for w in range(n // 8):
                if not (pat >> w & 1):
                    v2[8 * w:8 * w + 8] = b"\xff" * 8
            cs.append(Case("increment %s" % hx(bytes(v2)), cls="increment/ff-words"))
        cs.append(Case("increment %s" % hx(b"\x00" * n), cls="increment/zero"))
        cs.append(Case("increment %s" % hx(b"\xff" * n), cls="increment/ff"))
    for n in range(0, 13):
        for v in ([b"\x00" * n, b"\xff" * n, rbytes(rng, n)] + [b"\xff" * k + rbytes(rng, n - k) for k in range(1, n)]):
            cs.append(Case("increment %s" % hx(v), cls="increment/len=%d" % n))
    # ---------------- HMAC-SHA-512-256, SHA-512, SipHash: every length
    for n in lens:
        style = n % 3
        msg = rbytes(rng, n) if style else b"\xff" * n
        cs.append(Case("auth %s %s" % (hx(rbytes(rng, 32)), hx(msg)), cls="auth/len%%128=%d" % (n % 128)))
        cs.append(Case("sha512 %s" % hx(msg), cls="sha512/len%%128=%d" % (n % 128)))
        cs.append(Case("shorthash %s %s" % (hx(rbytes(rng, 16)), hx(msg)), cls="shorthash/len%%8=%d" % (n % 8)))
    for n in ([0, 1, 127, 128, 129] if tier == "quick" else list(range(0, 140))):
        key, msg = rbytes(rng, 32), rbytes(rng, n)
        mac = refs.hmac512256(key, msg)
        cs.append(Case("auth_verify %s %s %s" % (hx(key), hx(msg), hx(mac)), cls="auth_verify/good", expect="ok"))
        for f in flips(mac):
            cs.append(Case("auth_verify %s %s %s" % (hx(key), hx(msg), hx(f)), cls="auth_verify/flip", expect="err"))
        if n in (0, 128):
            for f in multi_flips(mac, rng):
                cs.append(Case("auth_verify %s %s %s" % (hx(key), hx(msg), hx(f)), cls="auth_verify/multi-flip", expect="err"))
    # ---------------- BLAKE2b generic hash: every digest length × key lengths × message lengths
    keylens = [0, 16, 17, 31, 32, 33, 48, 63, 64]
    msglens = [0, 1, 63, 64, 127, 128, 129, 255, 256, 257, 300]
    for outlen in range(16, 65):
        for kl in (keylens if tier == "quick" else [0] + list(range(16, 65))):
            for ml in (msglens if (tier == "thorough" or (outlen + kl) % 3 == 0) else [msglens[(outlen + kl) % len(msglens)]]):
                cs.append(Case("generichash %d %s %s" % (outlen, hx(rbytes(rng, kl)), hx(rbytes(rng, ml))), cls="generichash/keyed=%d" % (kl > 0)))
    for n in lens:
        kl = [0, 32, 64, 16][n % 4]
        msg = rbytes(rng, n) if n % 3 else b"\xff" * n
        cs.append(Case("generichash %d %s %s" % (16 + n % 49, hx(rbytes(rng, kl)), hx(msg)), cls="generichash/len%%128=%d" % (n % 128)))
    for outlen in list(range(0, 16)) + list(range(65, 72)):     # rejected digest lengths
        cs.append(Case("generichash %d - %s" % (outlen, hx(rbytes(rng, 5))), cls="generichash/bad-outlen", expect="err"))
    for kl in list(range(1, 16)) + [65, 66, 100]:             # rejected key lengths
        cs.append(Case("generichash 32 %s %s" % (hx(rbytes(rng, kl)), hx(rbytes(rng, 5))), cls="generichash/bad-keylen", expect="err"))
    # ---------------- the default-parameter object forms of the generic hash with a key in a variable-length container (whole key used)
    for klen in (16, 20, 31, 33, 48, 64):
        for n in (0, 1, 129):
            msg = rbytes(rng, n)
            cs.append(Case("generichash_obj 32 %s %s %s" % (hx(rbytes(rng, klen)), hx(msg[:n // 2]), hx(msg[n // 2:])), cls="generichash_obj/vec-key"))
    # ---------------- HSalsa20 / HChaCha20
    for i in range(200 if tier == "quick" else 3000):
        k, inp = rbytes(rng, 32), rbytes(rng, 16)
        if i % 10 == 0:
            k, inp = b"\xff" * 32, b"\xff" * 16
        cs.append(Case("hsalsa20 %s %s" % (hx(k), hx(inp)), cls="hsalsa20"))
        cs.append(Case("hsalsa20 %s %s %s" % (hx(k), hx(inp), hx(rbytes(rng, 16))), cls="hsalsa20/const"))
        if i < 12:
            # explicit constant blocks that a "no constants given" sentinel could be confused with: all-zero, the standard sigma, single
            # non-zero words, all ones
            for cst in (bytes(16), b"expand 32-byte k", bytes(4) + b"\x01" + bytes(11), b"\x01" + bytes(15), bytes(12) + b"\x00\x00\x00\x80", b"\xff" * 16):
                cs.append(Case("hsalsa20 %s %s %s" % (hx(k), hx(inp), hx(cst)), cls="hsalsa20/const-degenerate"))
                cs.append(Case("hchacha20 %s %s %s" % (hx(k), hx(inp), hx(cst)), cls="hchacha20/const-degenerate"))
        cs.append(Case("hchacha20 %s %s" % (hx(k), hx(inp)), cls="hchacha20"))
    # inputs past 4 GiB (an aliased buffer, harness/src/ops_huge.rs): every length computation of the authenticator must hold beyond 32 bits
    for L in ((2 ** 32 + 16 + 5,) if tier == "quick" else (2 ** 32 - 1, 2 ** 32, 2 ** 32 + 16 + 5, 2 ** 33 + 3)):
        cs.append(Case("poly1305_huge %d" % L, cls="poly1305/over-4GiB", meta={"no_spec": True, "alloc_bound": 1 << 20, "why": "one-time authenticator of a %d-byte input" % L}))
    return cs


def run(tier, seed):
    rng = random.Random(seed)
    res = Result("C07", tier, seed)
    lean = lean_obligations("C07")
    runner = build_runner(RUNNER)
    cases = gen(rng, tier)
    lines = assign_ids(cases)
    impl = run_engine(runner, lines)
    model = run_engine(driver_path(), lines) if lean["build_ok"] else {}
    standard_compare(res, cases, impl, model)
    concurrent_pass(res, RUNNER, lines, cases, impl)
    if tier == "thorough" and lean["build_ok"]:
        okc, out = leanchecker("C07")
        res.extra["leanchecker"] = "ok" if okc else out
        if not okc:
            lean["failed"].append("leanchecker: " + out[-300:])
    return conclude(res, lean, trusted=TRUSTED,
                    rule="every message length 0..=L for each primitive with random/0xff/zero contents, constructed Poly1305 carry corners, all single-bit flips of valid authenticators; a case is distinct by (op, implementation answer) and non-trivial if it produced an answer",
                    assumptions=["sha2, salsa20, chacha20 crates behave as the Lean specs state (differentially checked, not proved)"])
