"""C01 — authenticated encryption round-trips and is byte-compatible with libsodium (DESIGN.md §7 C01)."""
import random
from common import *
from boxfam import *

RUNNER = "stable"
TRUSTED = [
    "Lean 4.33.0 kernel; axioms ⊆ {propext, Classical.choice, Quot.sound}",
    "XSalsa20 (salsa20 crate), X25519 (curve25519-dalek), HSalsa20 enter the theorems as parameters; their Lean specs are compared with the implementation and libsodium on every run, not verified",
    "correspondence check: python generator/differ (with an independent pure-python NaCl reference), Rust runner, Lean driver",
]


def gen(rng, tier):
    cs = corpus_cases("C01")
    if tier == "quick":
        lens = list(range(0, 130)) + [255, 256, 257, 1023, 1024, 1025, 4096]
    else:
        lens = list(range(0, 321)) + [s * k + d for s in (16, 64) for k in (6, 8, 16, 33, 64, 128) for d in (-1, 0, 1)] + [8191, 8192]
    for idx, n in enumerate(lens):
        I = Inst(rng, n, style=idx)
        for form in ENC_FORMS:
            cs.append(enc_case(form, I))
        for form in OPEN_FORMS:
            line = open_line(form, I)
            cs.append(Case(line, cls="open/" + form.split(" ")[0], expect=(lambda a, e="ok " + hx(I.msg): a == e),
                           meta={"why": "opening an honest ciphertext did not return the message"}))
        if n < 40 or idx % 8 == 0:
            cs.extend(oversized_authentic(I, (1, 64) if tier == "quick" else (1, 7, 64, 200)))
        # dryoc seals with the OS generator, libsodium opens it, and vice versa (classic + object API)
        if n < 64 or idx % 8 == 0:
            cs.append(Case("box_seal_rt %s %s %s" % (hx(I.rpk), hx(I.rsk), hx(I.msg)), cls="seal-roundtrip", expect="ok"))
    # messages beyond every small-length sweep (just below / at / above 64 KiB and 128 KiB, and an odd large one): every encrypt form
    # against the reference and libsodium, every open form back to the message
    for n in ((65537, 131073) if tier == "quick" else (65535, 65536, 65537, 70001, 131072, 131073, 200000, (1 << 20) + 1)):
        I = Inst(rng, n, style=0)
        for form in ENC_FORMS:
            c = enc_case(form, I); c.cls = "large-" + c.cls
            cs.append(c)
        for form in OPEN_FORMS:
            cs.append(Case(open_line(form, I), cls="large-open/" + form.split(" ")[0], expect=(lambda a, e="ok " + hx(I.msg): a == e),
                           meta={"why": "opening an honest %d-byte ciphertext did not return the message" % n}))
    # the key pairs the boxes are made with may come from a seed (classic, in-place and `KeyPair::from_seed`): same pair as libsodium's
    for n in [32] * 12 + [0, 1, 16, 31, 33, 64, 100]:
        cs.append(Case("box_seed_keypair %s" % hx(rbytes(rng, n)), cls="seeded-keypair", meta={"no_spec": n != 32}))
    # ciphertexts constructed so that the one-time authenticator lands on its carry / final-reduction corners
    for i in range(40 if tier == "quick" else 600):
        which = "secret" if i % 2 == 0 else "box"
        I = CornerInst(rng, which)
        for form in ENC_FORMS + OPEN_FORMS:
            f = form.split(" ")[0]
            secret_form = f.startswith(("secretbox", "sbobj"))
            if "seal" in f or (secret_form != (which == "secret") and "afternm" not in f) or ("afternm" in f and which == "secret"):
                continue
            if form in ENC_FORMS:
                c = enc_case(form, I); c.cls = "corner-" + c.cls
                cs.append(c)
            else:
                cs.append(Case(open_line(form, I), cls="corner-open/" + f, expect=(lambda a, e="ok " + hx(I.msg): a == e),
                               meta={"why": "opening an honest ciphertext (Poly1305 corner) did not return the message"}))
    if tier == "thorough":
        # inputs past 4 GiB (an aliased buffer, harness/src/ops_huge.rs): every length computation of the authenticator must hold beyond 32 bits
        for L in (2 ** 32 + 16 + 5,):
            cs.append(Case("poly1305_huge %d" % L, cls="poly1305/over-4GiB", meta={"no_spec": True, "alloc_bound": 1 << 20, "why": "one-time authenticator of a %d-byte input (the authenticator of a box of that size)" % L}))
    return cs


def run(tier, seed):
    rng = random.Random(seed)
    res = Result("C01", tier, seed)
    lean = lean_obligations("C01")
    runner = build_runner(RUNNER)
    cases = gen(rng, tier)
    lines = assign_ids(cases)
    impl = run_engine(runner, lines)
    model = run_engine(driver_path(), lines) if lean["build_ok"] else {}
    standard_compare(res, cases, impl, model)
    concurrent_pass(res, RUNNER, lines, cases, impl)
    # the object-API forms once more on the nightly build: there the precomputed key is additionally held in locked and
    # read-only locked memory and the heap containers exist (every form must still give the same bytes)
    ncases = [c for c in cases if c.line.split(" ")[0].startswith(("boxobj_", "sbobj_"))]
    if tier == "quick":
        ncases = ncases[::3]
    extra = [Case(c.line.replace(" vec ", " heap ", 1), cls=c.cls + "/heap", expect=c.expect, meta=c.meta) for c in ncases if " vec " in c.line][::4]
    ncases = ncases + extra
    nl = ["n%d %s" % (i, c.line) for i, c in enumerate(ncases)]
    nimpl = run_engine(build_runner("nightly"), nl)
    for i, c in enumerate(ncases):
        a = nimpl.get("n%d" % i, ["missing"])[0]
        res.evaluations += 1
        res.count("nightly/" + c.cls)
        if a == "n/a":
            continue
        okp = c.expect(a) if callable(c.expect) else (c.expect is None or a == c.expect or a.startswith(c.expect + " "))
        if a in ("panic", "missing") or a.startswith(("mismatch", "abort")) or not okp:
            res.violations.append({"kind": "impl-mismatch" if a.startswith("mismatch") else "predicate", "line": c.line, "answers": {"impl(nightly build)": a[:300]},
                                   "why": "object-API form on the nightly build (locked precomputed keys, heap containers): " + str(c.meta.get("why", c.cls))})
    if tier == "thorough" and lean["build_ok"]:
        okc, out = leanchecker("C01")
        res.extra["leanchecker"] = "ok" if okc else out
        if not okc:
            lean["failed"].append("leanchecker: " + out[-300:])
    return conclude(res, lean, trusted=TRUSTED,
                    rule="every message length in the tier's range × 17 encrypt forms × 17 open forms (classic + object API, Vec/stack containers) + sealed-box round trips through libsodium; distinct by (op, implementation answer)",
                    assumptions=["X25519/XSalsa20 dependency crates behave as their Lean specs (differentially checked)"])
