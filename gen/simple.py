"""Common run() for properties whose check is: lean obligations + generated cases + 4-column comparison."""
import random
from common import *


def run_simple(prop, tier, seed, gen, trusted, rule, assumptions, runner_cfg="stable", post=None, also_builds=(), concurrent=False, **cmp):
    rng = random.Random(seed)
    res = Result(prop, tier, seed)
    lean = lean_obligations(prop)
    runner = build_runner(runner_cfg)
    cases = corpus_cases(prop) + gen(rng, tier)
    lines = assign_ids(cases)
    impl = run_engine(runner, lines)
    model = run_engine(driver_path(), lines) if lean["build_ok"] else {}
    standard_compare(res, cases, impl, model, **cmp)
    # the same requests on other builds of the crate (e.g. the SIMD BLAKE2b backend): the answer must not depend on the build
    for cfg in also_builds:
        impl2 = run_engine(build_runner(cfg), lines)
        ndiff = 0
        for c in cases:
            a, b = impl.get(c.id, ["missing"])[0], impl2.get(c.id, ["missing"])[0]
            res.evaluations += 1
            res.count("build=%s/%s" % (cfg, c.cls.split("/")[0]))
            if a == "n/a" or b == "n/a" or c.line.split(" ")[0] in PROFILE_DEPENDENT_OPS:
                continue
            if a != b:
                ndiff += 1
                if ndiff <= 20:
                    res.violations.append({"kind": "impl(%s)!=impl(%s)" % (cfg, runner_cfg), "line": c.line, "answers": {"impl(%s build)" % runner_cfg: a, "impl(%s build)" % cfg: b, "sodium": impl.get(c.id, ["", "n/a"])[1]},
                                           "why": "the answer depends on the build configuration (%s vs %s)" % (cfg, runner_cfg), "runner_cfg": cfg})
        res.extra["also_builds"] = list(also_builds)
    if concurrent:
        concurrent_pass(res, runner_cfg, lines, cases, impl)
    if post:
        post(res, cases, impl, model)
    if tier == "thorough" and lean["build_ok"]:
        okc, out = leanchecker(prop)
        res.extra["leanchecker"] = "ok" if okc else out
        if not okc:
            lean["failed"].append("leanchecker: " + out[-300:])
    return conclude(res, lean, trusted=trusted, rule=rule, assumptions=assumptions)
