"""Common run() for properties whose check is: lean obligations + generated cases + 4-column comparison."""
import random
from common import *


def run_simple(prop, tier, seed, gen, trusted, rule, assumptions, runner_cfg="stable", post=None, **cmp):
    rng = random.Random(seed)
    res = Result(prop, tier, seed)
    lean = lean_obligations(prop)
    runner = build_runner(runner_cfg)
    cases = corpus_cases(prop) + gen(rng, tier)
    lines = assign_ids(cases)
    impl = run_engine(runner, lines)
    model = run_engine(driver_path(), lines) if lean["build_ok"] else {}
    standard_compare(res, cases, impl, model, **cmp)
    if post:
        post(res, cases, impl, model)
    if tier == "thorough" and lean["build_ok"]:
        okc, out = leanchecker(prop)
        res.extra["leanchecker"] = "ok" if okc else out
        if not okc:
            lean["failed"].append("leanchecker: " + out[-300:])
    return conclude(res, lean, trusted=trusted, rule=rule, assumptions=assumptions)
