import c14
RUNNER = "nightly"
def run(tier, seed):
    return c14.run_prot("C15", tier, seed)
