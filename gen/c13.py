"""C13 — seeded key generation and Ed25519→X25519 conversion match libsodium (DESIGN.md §7 C13)."""
from common import *
from simple import run_simple
import refs

RUNNER = "stable"
TRUSTED = [
    "Lean 4.33.0 kernel; axioms ⊆ {propext, Classical.choice, Quot.sound}",
    "curve arithmetic (dalek) modelled by the Lean Ed25519/X25519 specs, compared differentially; that the birational map commutes with scalar multiplication is a hypothesis of converted_pair_consistent",
]


def gen(rng, tier):
    cs = []
    for n in range(0, 129):
        for r in range(1 if tier == "quick" else 6):
            seed = rbytes(rng, n) if r else (b"\x00" * n if n % 2 else rbytes(rng, n))
            cs.append(Case("box_seed_keypair %s" % hx(seed), cls="box_seed/len%%8=%d" % (n % 8)))
    for i in range(150 if tier == "quick" else 4000):
        seed = rbytes(rng, 32)
        if i < 3:
            seed = [bytes(32), b"\xff" * 32, bytes(range(32))][i]
        cs.append(Case("kx_seed_keypair %s" % hx(seed), cls="kx_seed"))
        pk = refs.ed_public(seed)
        cs.append(Case("sign_seed_keypair %s" % hx(seed), cls="sign_seed", expect="ok %s %s" % (hx(pk), hx(seed + pk))))
        cs.append(Case("ed_to_curve %s %s" % (hx(pk), hx(seed + pk)), cls="ed_to_curve/honest",
                       expect=lambda a: a.startswith("ok ") and a.endswith(" consistent"), meta={"why": "converted pair inconsistent: base·(converted sk) ≠ converted pk"}))
    # a key pair derived from a password: the Config's hash_length / salt_length must not influence the key (libsodium: crypto_pwhash with outlen 32)
    # the EMPTY password and one-byte passwords (libsodium accepts a zero-length password): the derived pair is libsodium's
    for pwd in (b"", b"\x00", b"a"):
        for salt in (bytes(16), rbytes(rng, 16)):
            cs.append(Case("pwhash_keypair 1 8192 %s %s" % (hx(pwd), hx(salt)), cls="pwhash_keypair/empty-or-tiny-password"))
    # the key pair derived under each cost preset (64 MiB / 256 MiB / 1 GiB really run): libsodium's output at libsodium's constants
    for which in ("interactive", "default", "moderate", "sensitive"):
        cs.append(Case("pwhash_keypair_preset %s %s %s" % (which, hx(rbytes(rng, 7)), hx(rbytes(rng, 16))), cls="pwhash_keypair/preset-" + which, meta={"no_spec": True, "alloc_bound": 1 << 31}))

    for i, hl in enumerate([16, 31, 32, 33, 48, 64, 128]):
        pwd, salt = rbytes(rng, 3 + i), rbytes(rng, 16)
        cs.append(Case("pwhash_keypair 1 8192 %s %s" % (hx(pwd), hx(salt)), cls="pwhash_keypair/default"))
        cs.append(Case("pwhash_keypair 1 8192 %s %s %d" % (hx(pwd), hx(salt), hl), cls="pwhash_keypair/hash_length"))
    # … nor may the Config round the memory limit: limits that are not whole KiB, and KiB counts that are not multiples of 4
    for mem in (8193, 11264, 13824, 10000, 1051648):
        pwd, salt = rbytes(rng, 5), rbytes(rng, 16)
        cs.append(Case("pwhash_keypair 1 %d %s %s" % (mem, hx(pwd), hx(salt)), cls="pwhash_keypair/memlimit-not-aligned"))
    # public key recomputed from a secret key, incl. unclamped ones: every pattern of the five clamped bits
    for lo in range(8):
        for hi in range(4):
            sk = bytearray(rbytes(rng, 32)); sk[0] = (sk[0] & 0xf8) | lo; sk[31] = (sk[31] & 0x3f) | (hi << 6)
            cs.append(Case("scalarmult_base %s" % hx(bytes(sk)), cls="from_secret_key/clamp-bits", expect="ok " + hx(refs.x25519_base(bytes(sk)))))
    # degenerate secret keys (an empty / wiped container, all ones, the other members of their clamping classes, the group order):
    # the public key is still clamp(sk)·B — 2^254·B for the all-zero key
    for sk in [bytes(32), b"\xff" * 32, b"\x07" + bytes(30) + b"\x80", bytes(31) + b"\x40", b"\x01" + bytes(31), bytes(31) + b"\x01",
               refs.ED_L.to_bytes(32, "little"), (refs.ED_L - 1).to_bytes(32, "little"), b"\xf8" + b"\xff" * 30 + b"\x7f"]:
        cs.append(Case("scalarmult_base %s" % hx(sk), cls="from_secret_key/degenerate", expect="ok " + hx(refs.x25519_base(sk))))
    # degenerate seeds: empty, one zero byte, 32 zero bytes, 32 × 0xff
    for seed in [b"", b"\x00", bytes(32), b"\xff" * 32, bytes(64)]:
        cs.append(Case("box_seed_keypair %s" % hx(seed), cls="box_seed/degenerate", meta={"no_spec": len(seed) != 32}))
        if len(seed) == 32:
            cs.append(Case("sign_seed_keypair %s" % hx(seed), cls="sign_seed/degenerate"))
    return cs


def run(tier, seed):
    return run_simple("C13", tier, seed, gen, TRUSTED,
                      "box seeds of every length 0..=128, kx and signing seeds, secret keys with every pattern of the clamped bits, every generated Ed25519 pair converted to X25519 with the consistency check base·sk' = pk' on the implementation; impl vs model vs Lean spec vs libsodium; distinct by (op, implementation answer)",
                      ["dalek arithmetic modelled by Lean specs"], concurrent=True)
