"""C14 / C15 / C19 — protected memory (DESIGN.md §7 C14, C15, C19).  One module, three entry points."""
import random, os, re
from common import *
import protfam

RUNNER = "nightly"
TRUSTED = [
    "Lean 4.33.0 kernel; axioms ⊆ {propext, Classical.choice, Quot.sound}",
    "the Linux semantics of mprotect/mlock/munlock (page rounding, len = 0 is a no-op), glibc posix_memalign/free, /proc/self/maps and VmLck reporting and signal delivery are modelled as stated, not verified",
    "Vec's growth policy (RawVec::grow_amortized) is modelled; hook H2 reports every release of the page-aligned allocator",
]


def compare_wild(a, b):
    """model answers may contain '*' for checksums of random contents"""
    if a == b:
        return True
    if "*" not in b:
        return False
    import re
    pat = re.escape(b).replace(r"\*", "[0-9a-f?]{1,8}")
    return re.fullmatch(pat, a) is not None


def run_prot(prop, tier, seed, fail=False):
    rng = random.Random(seed)
    res = Result(prop, tier, seed)
    lean = lean_obligations(prop)
    runner = build_runner(RUNNER)
    env = dict(ENV)
    shim = os.path.join(WORK, "mlock_fail.so")
    if fail:
        src = os.path.join(VERIF, "interpose", "mlock_fail.c")
        if not os.path.exists(shim) or os.path.getmtime(shim) < os.path.getmtime(src):
            rc, out = sh(["clang", "-shared", "-fPIC", "-O1", "-o", shim, os.path.join(VERIF, "interpose", "mlock_fail.c"), "-ldl"])
            if rc != 0:
                raise BuildError("cannot build the mlock shim: " + out)
        env["LD_PRELOAD"] = shim
    if prop == "C15":
        # an observation of released memory that does not depend on dryoc's own hook: every page-aligned block of ≥ 3 pages is
        # scanned over its whole usable size at the moment it is passed to free()
        fsrc = os.path.join(VERIF, "interpose", "free_scan.c")
        fshim = os.path.join(WORK, "free_scan.so")
        if not os.path.exists(fshim) or os.path.getmtime(fshim) < os.path.getmtime(fsrc):
            rc, out = sh(["clang", "-shared", "-fPIC", "-O1", "-o", fshim, fsrc, "-ldl"])
            if rc != 0:
                raise BuildError("cannot build the free-scan shim: " + out)
        env["LD_PRELOAD"] = (env.get("LD_PRELOAD", "") + " " + fshim).strip()
    cases = corpus_cases(prop)
    for kind in ("bytes", "arr"):
        seqs = protfam.sequences(rng, tier, kind)
        if prop != "C14":
            seqs = seqs[:: (3 if tier == "quick" else 2)]
        for n, toks in seqs:
            if fail:
                # the k-th and all later lock requests are refused, for k = 1 .. #lock-like tokens + 1
                nl = sum(1 for t in toks if t.split("@")[0] in ("lock", "clone") or t.startswith("resize")) + 1
                ks = range(1, nl + 1) if tier == "thorough" else [1, max(1, nl // 2), nl]
                for k in sorted(set(ks)):
                    # the errno of the refusal varies: ENOMEM (12), EAGAIN (11), EPERM (1), EINVAL (22)
                    e = [12, 11, 1, 22][(k + len(toks) + n) % 4]
                    tk = ["failfrom:%d" % (k if e == 12 else 1000 * e + k)] + toks
                    line = "prot %s %d %s" % (kind, n, " ".join(tk))
                    cases.append(Case(line, cls="%s/fail-k=%d" % (kind, min(k, 4))))
            else:
                tk = protfam.with_probes(n, toks, probes=(prop == "C14"))
                line = "prot %s %d %s" % (kind, n, " ".join(tk))
                cases.append(Case(line, cls="%s/len=%d" % (kind, n)))
    if prop == "C15":
        # large allocations (glibc serves them differently: mmap threshold) and odd capacities
        for n in (1001, 1003, 4099, 9001, 12295, 131071, 131072, 131073, 200000, 1048577):
            for toks in (["new", "fill:a5", "resize:%d" % (2 * n + 1), "drop"], ["new", "fill:a5", "resize:3", "drop"], ["new", "fill:a5", "clone", "drop", "drop@1"],
                         ["new", "fill:a5", "lock", "resize:%d" % (n + 4096), "resize:1", "drop"], ["new", "fill:5a", "drop"]):
                cases.append(Case("prot bytes %d %s" % (n, " ".join(toks)), cls="bytes/large-or-odd"))
    if prop == "C15":
        # an explicit zeroize() of the live container in the middle of its life, then a second secret and a reallocation:
        # whatever the wipe remembers about "already clean" must not survive the refill (differential-only: not in the Lean model)
        for n in (32, 64, 1000, 4096, 8192, 8209):
            for pre in (["new", "fill:a5"], ["new", "fill:a5", "lock", "unlock"]):
                for grow in (2 * n + 1, 4 * n + 4096):
                    cases.append(Case("prot bytes %d %s" % (n, " ".join(pre + ["zeroize", "resize:%d" % n, "fill:77", "resize:%d" % grow, "fill:78", "drop"])), cls="bytes/explicit-zeroize"))
                    cases.append(Case("prot bytes %d %s" % (n, " ".join(pre + ["zeroize", "resize:%d" % n, "fill:77", "clone", "resize:%d" % grow, "drop", "drop@1"])), cls="bytes/explicit-zeroize"))
        # secrets behind an all-zero page (zero-padded buffers): every page of a released block must be wiped, not only a prefix
        for n in (8192, 12288, 20000):
            for toks in (["new", "fill:00", "resize:%d" % (n + 100), "fillfrom:%d:5a" % n, "resize:%d" % (4 * n), "drop"],
                         ["new", "fill:00", "lock", "unlock", "resize:%d" % (n + 100), "fillfrom:%d:5a" % n, "resize:%d" % (4 * n), "drop"]):
                cases.append(Case("prot bytes %d %s" % (n, " ".join(toks)), cls="bytes/zero-page-prefix"))
    # `Clone::clone_from` between two live regions in the same type state (same and different lengths): the destination keeps its
    # state — rights, lock, guard pages — and holds the source's bytes; probes follow.  (Not an operation of the Lean model:
    # judged by the predicate and the release / free() observers.)
    for n in (1, 32, 4095, 4096, 4097, 8193):
        for m in sorted({n, n + 1, 10, 2 * n + 1}):
            for st in ([], ["lock"], ["lock", "ro"], ["lock", "unlock"], ["lock", "unlock", "ro"]):
                toks = ["new", "fill:a5"] + st + ["new", "resize:%d@1" % m, "fill:5b@1"] + [t + "@1" for t in st]
                toks += ["clonefrom:1", "wprobe:0", "rprobe:0", "gprobe:aft"]
                if st and st[-1] == "ro":
                    toks += ["rw", "fill:11", "ro"]
                toks += ["unlock", "lock"] if (st and st[0] == "lock" and "unlock" not in st and not fail) else []
                toks += ["drop", "drop@1"]
                if fail:
                    for k in (1, 2, 3, 4):
                        cases.append(Case("prot bytes %d %s" % (n, " ".join(["failfrom:%d" % k] + [t for t in toks if not t.startswith(("wprobe", "rprobe", "gprobe"))])), cls="bytes/clone_from-fail"))
                else:
                    cases.append(Case("prot bytes %d %s" % (n, " ".join(toks)), cls="bytes/clone_from"))
    if not fail:
        # a region dropped while a panic unwinds through its owner: same wipes, same unlocks as an ordinary drop
        for n in (32, 3000, 4096, 8193):
            for pre in (["new", "fill:a5"], ["new", "fill:a5", "resize:10"], ["new", "fill:a5", "lock"], ["new", "fill:a5", "lock", "unlock", "resize:10"],
                        ["new", "fill:a5", "lock", "resize:10"], ["new", "fill:a5", "lock", "ro"], ["new", "fill:a5", "resize:%d" % (2 * n + 5), "fill:a6", "resize:7"]):
                cases.append(Case("prot bytes %d %s" % (n, " ".join(pre + ["panicdrop"])), cls="bytes/drop-while-unwinding"))
                if "resize" not in " ".join(pre) and n in protfam.ARR_LENS:
                    cases.append(Case("prot arr %d %s" % (n, " ".join(pre + ["panicdrop"])), cls="arr/drop-while-unwinding"))
    if fail:
        # a refused RE-lock of a region that is unlocked and read-only / no-access / read-write (the k-th lock request of the history)
        for kind in ("bytes", "arr"):
            for n in (1, 32, 4096, 4097):
                if kind == "arr" and n not in protfam.ARR_LENS:
                    continue
                for mode in ("ro", "na", "rw"):
                    for tail in (["drop"], ["rw", "drop"], ["unlock", "drop"]):
                        for k in (2, 1002, 11002):
                            toks = ["failfrom:%d" % k, "new", "fill:a5", "lock", "unlock", mode, "lock"] + tail
                            cases.append(Case("prot %s %d %s" % (kind, n, " ".join(toks)), cls="%s/relock-%s" % (kind, mode)))
                        toks = ["failfrom:2", "new", "fill:a5", "lock", "ro", "unlock", "lock", "clone", "drop", "drop@1"]
                        cases.append(Case("prot %s %d %s" % (kind, n, " ".join(toks)), cls="%s/relock-ro2" % kind))
    if True:
        # Result-returning constructors under refusal / plain
        for n in protfam.LENS:
            for ctor in ("fsl:%d" % n, "fsro:%d" % n, "newlocked", "genlocked", "newrolocked", "genrolocked", "serde:json:%d" % n, "serde:bincode:%d" % n, "stacklock", "defaultlocked"):
                for k in ([1, 2, 3, 1001, 11001, 22002] if fail else [0]):
                    pre = ["failfrom:%d" % k] if k else []
                    for kind in ("bytes", "arr") if n in protfam.ARR_LENS else ("bytes",):
                        toks = pre + ["new", "fill:a5", "lock", ctor, "ro@1", "drop@1", "rw", "drop"]
                        cases.append(Case("prot %s %d %s" % (kind, n, " ".join(toks)), cls="ctor/%s" % ctor.split(":")[0]))
    lines = assign_ids(cases)
    impl = run_engine(runner, lines, env=env)
    model = run_engine(driver_path(), lines) if lean["build_ok"] else {}
    for c in cases:
        res.evaluations += 1
        res.count(c.cls)
        i = impl.get(c.id, ["missing"])[0]
        m = model.get(c.id, ["n/a"])[0]
        if "fillfrom:" in c.line or "defaultlocked" in c.line:      # suffix fills / serde decoding are not operations of the Lean model: judged by the predicate alone
            m = "n/a"
        if m == "bad-op":
            m = "n/a"; res.extra["model_unsupported"] = res.extra.get("model_unsupported", 0) + 1
        answers = {"impl": i[:3000], "model": m[:3000]}
        res.distinct.add(hashlib.sha1(i.encode()).hexdigest())
        if len(res.samples) < 6 and res.evaluations % 997 == 1:
            res.samples.append({"request": c.line, "answers": {"impl": i[:500]}})
        if i == "n/a":
            continue
        if i in ("missing", "panic") or i.startswith("abort"):
            res.violations.append({"kind": "impl-" + i.split("(")[0], "line": c.line, "answers": answers, "why": "the runner process died or panicked outside a token (SIGSEGV/abort in the implementation)"})
            continue
        # the free()-scan column is judged on its own and removed before the answer is compared with the model
        frs = re.findall(r" fr=([^;\s]+)", i)
        i = re.sub(r" fr=[^;\s]+", "", i)
        answers["impl"] = i[:3000]
        leak = None
        for fr in frs:
            if fr == "-":
                continue
            for ev in fr.split("+"):
                sz, nz, ur = ev.split(":")
                res.extra["free_scan_blocks"] = res.extra.get("free_scan_blocks", 0) + 1
                if int(nz) != 0:
                    leak = "a block of %s bytes reached free() with %s non-zero bytes still in it (scan of the whole block at the system allocator boundary)" % (sz, nz)
        if prop == "C15" and not frs:
            leak = "the free()-scanning shim is not active"
        if leak:
            res.violations.append({"kind": "predicate", "line": c.line, "answers": answers, "why": leak})
            continue
        why = protfam.prot_predicate(c.line, fail_injected=fail)(i)
        if why:
            res.violations.append({"kind": "predicate", "line": c.line, "answers": answers, "why": why})
        elif m != "n/a" and not compare_wild(i, m):
            res.corr_breaks.append({"line": c.line, "answers": answers})
    # C15 with ONE mprotect request refused by the kernel while a block is being set up (out of mappings: the allocator prints a line and
    # goes on without that guard page): every block released afterwards — this one and all others of the process — is still wiped.
    # The refusal is injected by the LD_PRELOAD shim (interpose/mlock_fail.c, `mpfail:K` = the K-th request from here on, once).
    # Only the free()-scan and the survival of the process are judged: rights and guard pages are not what the model describes here.
    if prop == "C15":
        src = os.path.join(VERIF, "interpose", "mlock_fail.c")
        if not os.path.exists(shim) or os.path.getmtime(shim) < os.path.getmtime(src):
            rc, out = sh(["clang", "-shared", "-fPIC", "-O1", "-o", shim, src, "-ldl"])
            if rc != 0:
                raise BuildError("cannot build the mlock shim: " + out)
        env2 = dict(env); env2["LD_PRELOAD"] = shim + " " + env["LD_PRELOAD"]
        mp = []
        for n in (32, 1000, 4096, 8193):
            for k in (1, 2, 3):
                for toks in (["new", "fill:a5", "mpfail:%d" % k, "clone", "fill:5b@1", "resize:%d@1" % (2 * n + 1), "fill:5c@1", "drop@1", "resize:%d" % (3 * n + 7), "fill:a6", "resize:3", "drop"],
                             ["mpfail:%d" % k, "new", "fill:a5", "resize:%d" % (2 * n + 1), "fill:a6", "drop", "new", "fill:77@1", "lock@1", "resize:%d@1" % (4 * n), "drop@1"],
                             ["new", "fill:a5", "lock", "mpfail:%d" % k, "resize:%d" % (2 * n + 4096), "fill:a7", "unlock", "clone", "drop", "drop@1"]):
                    mp.append(Case("prot bytes %d %s" % (n, " ".join(toks)), cls="bytes/mprotect-refused-once"))
        # the application locks the buffer itself (or runs under mlockall): the pages are still locked when the allocator gets the block back
        for n in (4096, 8209, 12388, 20000):
            for toks in (["new", "fill:a5", "rawmlock", "resize:%d" % (3 * n + 1), "fill:a6", "drop"],
                         ["new", "fill:a5", "rawmlock", "resize:33", "drop"],
                         ["new", "fill:a5", "lock", "unlock", "rawmlock", "resize:%d" % (2 * n + 4096), "fill:a7", "clone", "drop", "drop@1"]):
                mp.append(Case("prot bytes %d %s" % (n, " ".join(toks)), cls="bytes/application-locked-pages"))
        # an unrelated failed system call earlier on the thread (a missing file probed: errno left non-zero) — releases wipe all the same
        for n in (32, 3000, 4096, 8209):
            for toks in (["failsys", "new", "fill:a5", "resize:%d" % (2 * n + 1), "fill:a6", "resize:3", "drop"],
                         ["new", "fill:a5", "lock", "failsys", "resize:%d" % (n + 4096), "fill:a7", "ro", "clone", "drop", "drop@1"],
                         ["new", "fill:a5", "failsys", "clone", "drop", "failsys", "drop@1"]):
                mp.append(Case("prot bytes %d %s" % (n, " ".join(toks)), cls="bytes/after-a-failed-syscall"))
        # regions handed to another thread and released / reallocated there (a worker thread finishing with a key): the same wipes
        for n in (32, 3000, 4096, 8209):
            for toks in (["new", "fill:a5", "resize:%d" % (2 * n + 1), "fill:a6", "resize:3", "tdrop"],
                         ["new", "fill:a5", "tresize:%d" % (3 * n + 5), "fill:a6", "tresize:7", "drop"],
                         ["new", "fill:a5", "lock", "resize:%d" % (n + 4096), "fill:a7", "resize:9", "tdrop"],
                         ["new", "fill:a5", "lock", "unlock", "clone", "tresize:%d@1" % (2 * n + 77), "tdrop", "tdrop@1"]):
                mp.append(Case("prot bytes %d %s" % (n, " ".join(toks)), cls="bytes/released-on-another-thread"))
        mlines = assign_ids(mp)
        mimpl = run_engine(runner, mlines, env=env2)
        nb = 0
        for c in mp:
            i = mimpl.get(c.id, ["missing"])[0]
            res.evaluations += 1
            res.count(c.cls)
            res.distinct.add(hashlib.sha1(i.encode()).hexdigest())
            if i in ("missing", "panic") or i.startswith("abort"):
                res.violations.append({"kind": "impl-" + i.split("(")[0], "line": c.line, "answers": {"impl": i[:600]}, "why": "the process died after one refused mprotect request"})
                continue
            if "mpfail" in i and "noshim" in i:
                res.violations.append({"kind": "predicate", "line": c.line, "answers": {"impl": i[:600]}, "why": "the mprotect-refusing shim is not active"})
                continue
            frs = re.findall(r" fr=([^;\s]+)", i)
            if not frs:
                res.violations.append({"kind": "predicate", "line": c.line, "answers": {"impl": i[:600]}, "why": "the free()-scanning shim is not active"})
                continue
            for fr in frs:
                if fr == "-":
                    continue
                for ev in fr.split("+"):
                    sz, nz, ur = ev.split(":")
                    nb += 1
                    if int(nz) != 0:
                        res.violations.append({"kind": "predicate", "line": c.line, "answers": {"impl": i[:1500]},
                                               "why": "after one refused mprotect request a block of %s bytes reached free() with %s non-zero bytes still in it" % (sz, nz)})
                        break
        res.extra["free_scan_blocks_after_refused_mprotect"] = nb
    # C15 once more on an OPTIMISED nightly build without the hooks feature (whose release observer reads the region between the wipe
    # and free(), which would keep alive a wipe the optimiser may otherwise delete as a dead store): only the free()-scan is judged
    if prop == "C15" and RELEASE_PASS:
        rimpl = run_engine(build_runner("nightly-release"), lines, env=env)
        nblocks = 0
        for c in cases:
            i = rimpl.get(c.id, ["missing"])[0]
            res.evaluations += 1
            res.count("release-profile/" + c.cls)
            if i in ("missing", "panic") or i.startswith("abort"):
                res.violations.append({"kind": "impl-" + i.split("(")[0], "line": c.line, "answers": {"impl(optimised build)": i[:300]}, "why": "the optimised build died on this history"})
                continue
            for fr in re.findall(r" fr=([^;\s]+)", i):
                if fr == "-":
                    continue
                for ev in fr.split("+"):
                    sz, nz, ur = ev.split(":")
                    nblocks += 1
                    if int(nz) != 0:
                        res.violations.append({"kind": "predicate", "line": c.line, "answers": {"impl(optimised build)": i[:600]},
                                               "why": "optimised build (no hooks): a block of %s bytes reached free() with %s non-zero bytes still in it" % (sz, nz)})
                        break
        res.extra["free_scan_blocks_optimised_build"] = nblocks
    # the crate-level constructors that place keys in locked memory (box / signing key pairs, precomputed keys; plain, generated,
    # read-only), with the k-th and all later lock requests refused: Ok or Err, never a panic, nothing left locked, and an Ok
    # result is a correct key / key pair
    CTORS = ["box_new_locked_keypair", "box_gen_locked_keypair", "box_gen_readonly_locked_keypair", "precalculate_locked", "precalculate_readonly_locked",
             "keypair_precalculate_locked", "keypair_precalculate_readonly_locked", "sign_new_locked_keypair", "sign_gen_locked_keypair", "sign_gen_readonly_locked_keypair"]
    if prop in ("C14", "C19"):
        ccases = []
        for name in CTORS:
            for k in ([0] if not fail else [1, 2, 3, 4, 5, 1001, 1002, 11001, 11002, 11003, 22002]):
                ccases.append(Case("lockedctor %s %d" % (name, k), cls="locked-constructor/" + ("refused" if k else "plain")))
        cl = ["k%d %s" % (i, c.line) for i, c in enumerate(ccases)]
        cans = run_engine(runner, cl, env=env)
        for i, c in enumerate(ccases):
            a = cans.get("k%d" % i, ["missing"])[0]
            res.evaluations += 1
            res.count(c.cls)
            res.distinct.add(hashlib.sha1((c.line + a).encode()).hexdigest())
            why = None
            if a.startswith("panic") or a == "missing" or a.startswith("abort"):
                why = "the constructor panicked / died instead of returning an error"
            elif " lck=0" not in a + " ":
                why = "memory is still locked after the constructor's result (or error) was dropped: " + a
            elif a.startswith("ok") and "check=ok" not in a:
                why = "the constructor returned Ok with a wrong key / key pair"
            elif not fail and not a.startswith("ok"):
                why = "the constructor failed although no lock request was refused"
            if why:
                res.violations.append({"kind": "predicate", "line": c.line, "answers": {"impl": a}, "why": why})
    if tier == "thorough" and lean["build_ok"]:
        okc, out = leanchecker(prop)
        res.extra["leanchecker"] = "ok" if okc else out
        if not okc:
            lean["failed"].append("leanchecker: " + out[-300:])
    return conclude(res, lean, trusted=TRUSTED,
                    rule="all operation sequences up to a bounded depth over the type-state graph (lock/unlock/ro/rw/na/clone/resize/drop) plus random deeper ones, for lengths 0,1,16,32,64,P−1,P,P+1,2P,2P+1, resizable and fixed-length containers; after every operation: /proc/self/maps rights of the page before, every data page and the pages after, VmLck delta, contents checksum, forked write/read/guard fault probes, allocator release events (size, non-zero bytes)" + ("; every block handed out by posix_memalign is zero-filled and is scanned over its whole usable size when it reaches free() (LD_PRELOAD shim interpose/free_scan.c), independently of the library's own release hook" if prop == "C15" else "") + ("; each sequence re-run with the k-th and all later mlock requests refused by an LD_PRELOAD shim" if fail else "") + "; distinct by implementation transcript",
                    assumptions=["Linux mprotect/mlock semantics as modelled"])


def run(tier, seed):
    return run_prot("C14", tier, seed)
