"""Protected-memory sequence generators and the independent property predicates (C14, C15, C19)."""
import itertools, re, zlib
from common import *

PAGE = 4096
LENS = [0, 1, 16, 32, 64, 4095, 4096, 4097, 8192, 8193]
ARR_LENS = [1, 16, 32, 64, 4095, 4096, 4097, 8192, 8193]
RESULT_OPS = {"lock", "unlock", "ro", "rw", "na", "fsl", "fsro", "newlocked", "genlocked", "newrolocked", "genrolocked", "serde", "stacklock"}
EXPECT_PERM = {"P": "w", "UR": "w", "LR": "w", "URO": "r", "LRO": "r", "UNA": "n", "LNA": "n"}
NEXT = {  # type-state graph: state → op → state   (what the safe API offers)
    "P": {"lock": "LR"},
    "UR": {"lock": "LR", "unlock": "UR", "ro": "URO", "rw": "UR", "na": "UNA"},
    "URO": {"lock": "LRO", "unlock": "URO", "ro": "URO", "rw": "UR", "na": "UNA"},
    "UNA": {"lock": "LNA", "unlock": "UNA", "ro": "URO", "rw": "UR", "na": "UNA"},
    "LR": {"unlock": "UR", "ro": "LRO", "rw": "LR"},
    "LRO": {"unlock": "URO", "ro": "LRO", "rw": "LR"},
    "LNA": {"unlock": "UNA", "ro": "LRO", "rw": "LR"},
}


def with_probes(len_, toks, probes=True):
    out = []
    for t in toks:
        out.append(t)
        name = t.split(":")[0].split("@")[0]
        if probes and name in ("lock", "unlock", "ro", "rw", "na", "resize", "clone", "new"):
            out += ["wprobe:0", "rprobe:0", "gprobe:fore", "gprobe:aft"]
            if len_ > 1:
                out += ["wprobe:%d" % (len_ - 1)]
    return out


def sequences(rng, tier, kind):
    """(len, tokens) pairs: exhaustive shallow sequences + random deeper ones"""
    ops = ["lock", "unlock", "ro", "rw", "na", "clone", "drop"] + (["resize:+", "resize:-"] if kind == "bytes" else [])
    depth = 3 if tier == "quick" else 4
    lens = LENS if kind == "bytes" else ARR_LENS
    out = []
    for n in lens:
        for d in range(1, depth + 1):
            for seq in itertools.product(ops, repeat=d):
                if "drop" in seq[:-1]:
                    continue
                if tier == "quick" and d == depth and n not in (1, 4096, 4097) and zlib.crc32(' '.join(seq).encode()) % 4:
                    continue
                toks = []
                cur = n
                for s in seq:
                    if s == "resize:+":
                        cur = cur * 2 + 1; toks.append("resize:%d" % cur)
                    elif s == "resize:-":
                        cur = cur // 2; toks.append("resize:%d" % cur)
                    else:
                        toks.append(s)
                out.append((n, ["new", "fill:a5"] + toks))
        for _ in range(20 if tier == "quick" else 400):
            d = rng.randrange(4, 9)
            toks = ["new", "fill:%02x" % rng.randrange(1, 256)]
            nslots = 1
            for _ in range(d):
                o = rng.choice(ops)
                tgt = rng.randrange(nslots)
                if o.startswith("resize"):
                    o = "resize:%d" % rng.choice([0, 1, 7, 8, 9, 100, 4095, 4096, 4097, 9000, 20000])
                if o == "clone":
                    nslots += 1
                toks.append(o + ("@%d" % tgt if tgt else ""))
            out.append((n, toks))
    return out


def prot_predicate(line, fail_injected=False):
    """independent check of one history's answer against the property statements (no model involved)"""
    parts = line.split(" ")
    kind, n = parts[1], int(parts[2])
    toks = parts[3:]
    def p(ans):
        outs = ans.split(";")
        if len(outs) != len(toks) + 1:
            return "answer has %d entries for %d tokens" % (len(outs), len(toks))
        prev_regs = []
        for t, o in zip(toks, outs):
            m = re.match(r"^(\S+) lck=(-?\d+) rel=(\S+)$", o)
            if not m:
                return "unparsable entry " + o[:60]
            body, lck, rel = m.group(1), int(m.group(2)), m.group(3)
            if body.startswith("n/a"):
                res, regs = "n/a", [x for x in body[4:].split("/") if x]
            else:
                fields = body.split("/")
                res, regs = fields[0], fields[1:]
            name = t.split(":")[0].split("@")[0]
            idx = int(t.split("@")[1]) if "@" in t else 0
            if res == "panic" and name in RESULT_OPS:
                return "%s panicked (it returns Result)" % t
            if res == "panic" and not fail_injected:
                return "%s panicked" % t
            if res == "err" and not fail_injected and name in RESULT_OPS:
                # the only legitimate error without fault injection: locking an inaccessible (PROT_NONE) region
                wrong_len = (name in ("fsl", "fsro") and kind == "arr" and t.split(":")[1].split("@")[0] != str(n)) or \
                            (name == "serde" and kind == "arr" and t.split(":")[2].split("@")[0] != str(n))
                if not (name == "lock" and idx < len(prev_regs) and prev_regs[idx].startswith("UNA")) and not wrong_len:
                    return "%s failed without a refused lock" % t
            if rel != "-":
                for r in rel.split("+"):
                    sz, nz = r.split(":")
                    if int(nz) != 0:
                        return "released %s bytes with %s non-zero bytes still in them (token %s)" % (sz, nz, t)
            want_lck = 0
            for ri, r in enumerate(regs):
                if r == "-":
                    continue
                st, ln, perms, sm = r.split(",")
                ln = int(ln)
                if st.startswith("L") and ln > 0:
                    want_lck += ((ln + PAGE - 1) // PAGE) * (PAGE // 1024)
                if ln == 0:
                    continue
                fore, data, after = perms.split("|")
                if fore != "n":
                    return "page before the data of region %d is %r, not inaccessible (after %s)" % (ri, fore, t)
                if set(data) != {EXPECT_PERM[st]}:
                    return "region %d is %s but its data pages are %r (after %s)" % (ri, st, data, t)
                if not re.match(r"^[wr]*n$", after) and len(after) < 40:   # the scan window is 40 pages: a longer run of spare-capacity pages hides the guard
                    return "no inaccessible guard page after region %d: %r" % (ri, after)
                # contents unchanged by pure transitions
                if name in ("lock", "unlock", "ro", "rw", "na") and ri == idx and ri < len(prev_regs) and prev_regs[ri] != "-":
                    psm = prev_regs[ri].split(",")[3]
                    if "?" not in (psm, sm) and psm != sm and res == "ok":
                        return "contents changed by %s" % t
            if lck != want_lck:
                return "locked memory is %d kB, the live Locked regions need exactly %d kB (after %s)" % (lck, want_lck, t)
            # fault probes
            if name in ("wprobe", "rprobe", "gprobe") and idx < len(regs) and regs[idx] != "-" and res not in ("n/a", "noslot"):
                st = regs[idx].split(",")[0]
                if name == "gprobe":
                    want = "segv"
                elif name == "wprobe":
                    want = "ok" if EXPECT_PERM[st] == "w" else "segv"
                else:
                    want = "segv" if EXPECT_PERM[st] == "n" else "ok"
                if res != want:
                    return "%s on a %s region gave %s, expected %s" % (t, st, res, want)
            prev_regs = regs
        m = re.match(r"^end lck=(-?\d+) rel=(\S+)$", outs[-1])
        if not m:
            return "bad end entry"
        if int(m.group(1)) != 0:
            return "residual locked memory after the last handle was dropped: %s kB" % m.group(1)
        if m.group(2) != "-":
            for r in m.group(2).split("+"):
                if int(r.split(":")[1]) != 0:
                    return "released %s with non-zero bytes at teardown" % r
        return None
    return p
