"""C18 — results are independent of backend, build configuration and container type (DESIGN.md §7 C18).
The same request files are answered by three builds of the runner (default software backend on stable, nightly,
nightly + portable-SIMD backend); the transcripts must be identical and equal to the Lean model / spec.
The Lean side: the SIMD compression model is REGENERATED from blake2b_simd.rs by tools/simd_tables.py on every run and
`simd_compress_eq` is re-checked against it."""
import random, subprocess
from common import *
import refs
import c07, c08, c09, c12, c05, c06, c13

RUNNER = "stable"
TRUSTED = [
    "Lean 4.33.0 kernel; axioms ⊆ {propext, Classical.choice, Quot.sound}",
    "tools/simd_tables.py (translator from blake2b_simd.rs to the Lean swizzle tables) is trusted to transcribe the source; it fails loudly on an unexpected shape",
    "sha2/asm and curve25519-dalek's own SIMD backends are covered by the transcript diff only",
]


def regen_tables():
    """regenerate the SIMD tables from the current source; returns (ok, message)"""
    tool = os.path.join(VERIF, "tools", "simd_tables.py")
    out = os.path.join(LEAN, "DryocVerif", "Model", "Blake2bSimdTables.lean")
    if not os.path.exists(tool):
        return True, "translator not present"
    p = subprocess.run(["python3", tool, os.path.join(REPO, "src", "blake2b", "blake2b_simd.rs")], stdout=subprocess.PIPE, stderr=subprocess.PIPE, text=True)
    if p.returncode != 0:
        return False, "translator rejected blake2b_simd.rs: " + p.stderr[-400:]
    old = open(out).read() if os.path.exists(out) else ""
    if p.stdout != old:
        with Lock("lake"):
            open(out, "w").write(p.stdout)
    return True, "tables regenerated (%s)" % ("unchanged" if p.stdout == old else "CHANGED")


def gen(rng, tier):
    cs = []
    sub = "quick"
    # the BLAKE2b-, SHA-512- and Curve25519-based operations of the other properties' corpora
    for mod, keep in ((c07, lambda c: c.line.split(" ")[0] in ("generichash", "sha512", "auth")),
                      (c08, lambda c: c.line.split(" ")[0].startswith(("generichash", "sha512", "auth")) and ("/k-way" in c.cls or "/boundary" in c.cls or "/3-way" in c.cls)),
                      (c09, lambda c: True), (c12, lambda c: True),
                      (c05, lambda c: c.line.split(" ")[0] in ("kx_client", "kx_server", "scalarmult_base", "precalc")),
                      (c06, lambda c: c.line.split(" ")[0] in ("sign", "sign_ph", "verify")),
                      (c13, lambda c: True)):
        got = [c for c in mod.gen(rng, sub) if keep(c)]
        for c in got:
            # C18 is about independence of the build / backend / container; whether libsodium would have REFUSED a small-order peer
            # key where dryoc computes a key (open finding F17) is C05's matter and is judged there
            if c.line.startswith("precalc "):
                c.meta["no_sodium"] = True
        if tier == "quick" and len(got) > 1500:
            got = got[:: len(got) // 1500 + 1]
        cs += got
    cs += c08.blake2b_window_cases(rng, tier)      # the hold-back arithmetic of BLAKE2b's update, on every backend (not subsampled)
    # the same bytes through every way of building a fixed-length container (slice, by value, locked, read-only locked)
    for n in (16, 24, 32, 64):
        for k in range(6):
            p = rbytes(rng, n)
            for cont in ("stack", "heap", "heapval", "locked", "lockedro"):
                if cont == "stack" or n != 24 or cont in ("heapval", "locked", "lockedro"):
                    cs.append(Case("tryfrom %s %d %s" % (cont, n, hx(p)), cls="container-build/" + cont, expect="ok " + hx(p)))
    # … and a slice of any OTHER length is refused by every container alike (no padding, no prefix view)
    for n in (16, 32, 64):
        for k in sorted({0, 1, n - 1, n + 1, n + 16, 2 * n, 2 * n + 1, 130}):
            p = rbytes(rng, k)
            for cont in ("stack", "heap", "locked", "lockedro"):
                cs.append(Case("tryfrom %s %d %s" % (cont, n, hx(p)), cls="container-build-wrong-length/" + cont, expect="err",
                               meta={"why": "a %d-byte %s container built from %d bytes" % (n, cont, k)}))
    # … and the same serialised document decodes alike into every fixed-length container: exact length accepted, any other element
    # count refused (no padding, no prefix) — text JSON, JSON via Value, JSON string, bincode, slice and reader routes
    for n in (16, 32):
        for k in sorted({0, 1, 3, n - 1, n, n + 1, 2 * n}):
            p = rbytes(rng, k)
            for fmt in ("json", "bincode", "jsonstr", "jsonval", "bincodeR", "jsonstrR", "jsonR"):
                for cont in ("stack", "locked"):
                    cs.append(Case("serde_fixed %s %d %s %s" % (cont, n, fmt, hx(p)), cls="container-decode/%s/%s" % (cont, fmt), expect="ok" if k == n else "err",
                                   meta={"why": "a %d-byte %s container decoded (%s) from %d bytes" % (n, cont, fmt, k)}))
    cs.append(Case("alias_lengths", cls="container-alias-lengths", expect="ok auth.Key=32 auth.Mac=32 secretbox.Key=32 generichash.Key=32 generichash.Hash=32 kdf.Key=32 kdf.Context=8 onetimeauth.Key=32 onetimeauth.Mac=16 sign.PublicKey=32 sign.SecretKey=64 sign.Signature=64", meta={"no_spec": True, "why": "fixed-length aliases of the protected modules vs libsodium's constants"}))
    # resize and clone behave like Vec's in every resizable container (shrink to a prefix, grow with zeros, clone keeps the bytes)
    for n in (0, 1, 16, 33, 100, 4096, 4097):
        data = rbytes(rng, n)
        for m in sorted({0, 1, n // 2, max(0, n - 1), n, n + 1, 2 * n + 3}):
            cs.append(Case("cont_ops %d %s" % (m, hx(data) if n else "-"), cls="container-ops", expect="ok " + hx((data + bytes(max(0, m - n)))[:m])))
    # sealed-box nonces and boxes, object API over containers
    for n in range(0, 40):
        key, nonce, msg = rbytes(rng, 32), rbytes(rng, 24), rbytes(rng, n)
        sk, esk = rbytes(rng, 32), rbytes(rng, 32)
        pk = refs.x25519_base(sk)
        cs.append(Case("box_seal %s %s %s" % (hx(pk), hx(msg), hx(esk)), cls="box_seal", expect="ok " + hx(refs.box_seal(pk, esk, msg))))
        for cont in ("vec", "stack", "heap"):
            cs.append(Case("sbobj_encrypt %s %s %s %s" % (cont, hx(key), hx(nonce), hx(msg)), cls="container/" + cont, expect=None, meta={"container_group": ("sb", n)}))
            cs.append(Case("boxobj_encrypt %s %s %s %s %s" % (cont, hx(pk), hx(sk), hx(nonce), hx(msg)), cls="container/" + cont, meta={"container_group": ("bx", n)}))
    return cs


def run(tier, seed):
    rng = random.Random(seed)
    res = Result("C18", tier, seed)
    okt, msg = regen_tables()
    res.extra["simd_tables"] = msg
    lean = lean_obligations("C18")
    if not okt:
        lean["failed"].append(msg)
    cases = corpus_cases("C18") + gen(rng, tier)
    lines = assign_ids(cases)
    outs = {}
    for cfg in ("stable", "nightly", "simd"):
        outs[cfg] = run_engine(build_runner(cfg), lines)
    model = run_engine(driver_path(), lines) if lean["build_ok"] else {}
    standard_compare(res, cases, outs["stable"], model)
    groups = {}
    for c in cases:
        a = {cfg: outs[cfg].get(c.id, ["missing"])[0] for cfg in outs}
        vals = {v for k, v in a.items() if v != "n/a"}
        if len(vals) > 1:
            res.violations.append({"kind": "predicate", "line": c.line, "answers": a, "why": "the three build configurations (stable / nightly / nightly+simd_backend) disagree"})
        # operations that only exist on the nightly builds are judged there (the stable runner answers n/a)
        if c.expect is not None and a.get("stable") == "n/a":
            for cfg in ("nightly", "simd"):
                v = a.get(cfg, "n/a")
                if v == "n/a":
                    continue
                okp = c.expect(v) if callable(c.expect) else (v == c.expect or v.startswith(c.expect + " "))
                if not okp or v.startswith("mismatch") or v == "panic":
                    res.violations.append({"kind": "predicate", "line": c.line, "answers": a, "why": "property predicate false on the %s build: %s" % (cfg, c.meta.get("why", c.cls))})
                    break
        g = c.meta.get("container_group")
        if g:
            for cfg in outs:
                v = outs[cfg].get(c.id, ["missing"])[0]
                if v != "n/a":
                    groups.setdefault(g, set()).add(v)
    for g, vals in groups.items():
        if len(vals) > 1:
            res.violations.append({"kind": "predicate", "line": "container group %s" % (g,), "answers": {"values": sorted(vals)[:4]}, "why": "stack / Vec / heap containers yield different bytes"})
    res.extra["builds"] = list(outs)
    if tier == "thorough" and lean["build_ok"]:
        okc, out = leanchecker("C18")
        res.extra["leanchecker"] = "ok" if okc else out
        if not okc:
            lean["failed"].append("leanchecker: " + out[-300:])
    return conclude(res, lean, trusted=TRUSTED,
                    rule="the C07/C08/C09/C12/C05/C06/C13 corpora restricted to BLAKE2b-, SHA-512- and Curve25519-based operations plus sealed boxes and object-API encryption over Vec/stack/heap containers, answered by three builds (stable default, nightly, nightly+simd_backend); transcripts compared pairwise and with the Lean model/spec; distinct by (op, implementation answer)",
                    assumptions=["translator from blake2b_simd.rs trusted"])
